SPECIFICATION PSpec
CONSTANTS Callers = {1, 2}
 CallerPol = "A"
 Upd = "B"
 Rounds = 2
 SharedKinds = {}
 CallerWrites = {}
INVARIANTS NoRace SequentialAnswer CallersCellsFrozen
CHECK_DEADLOCK FALSE
