SPECIFICATION SpecD2
CONSTANTS N = 5
 AR = 2
 MAXD = 3
 FixedBest = FALSE
INVARIANT WalkIsOracle
CHECK_DEADLOCK FALSE
