--------------------------- MODULE TraceTemplates ---------------------------
(***************************************************************************)
(* Validates the logs of generated programs (gen/templates.py) against       *)
(* Templates.tla.  One "tmpl" event per use_definitions instance: the type    *)
(* lists and the combinations marked not_defined (stimulus), the order of      *)
(* product<...> as the compiler computed it, the definitions found in the      *)
(* method's catalog after static initialisation, and the result of calling      *)
(* the method with every tuple of classes (which combination's definition ran,  *)
(* or -1 no definition, -2 ambiguous).                                        *)
(***************************************************************************)
EXTENDS Templates, IOUtils
VARIABLE l
Tr == ndJsonDeserialize(IOEnv.TRACE)
Ev == Tr[l]
TInitT == l = 1 /\ lists = <<>> /\ undef = {}
TResetT == l <= Len(Tr) /\ Ev.e = "reset" /\ l' = l + 1 /\ UNCHANGED tvars
TTmpl ==
    /\ l <= Len(Tr) /\ Ev.e = "tmpl" /\ l' = l + 1
    /\ LET U == SeqToSetT(Ev.undefined)
           P == ProductSeq(Ev.lists)
           D == DefRecsT(Ev.lists, U)
           anc == FlatAnc(Ev.K) IN
       /\ Ev.product = P                                                   \* the full product, in order
       /\ SeqToSetT(Ev.catalog) = Registered(Ev.lists, U)                   \* exactly the defined combinations
       /\ Len(Ev.catalog) = Cardinality(Registered(Ev.lists, U))            \* each once
       /\ Ev.other = 0                                                    \* and none with any other method
       /\ \A i \in DOMAIN Ev.calls :                                         \* rows [tuple, code, combination that ran]
             LET o == Outcome(anc, D, Ev.calls[i][1]) IN
             IF o >= 0 THEN Ev.calls[i][2] = 0 /\ Ev.calls[i][3] = P[o + 1]
             ELSE Ev.calls[i][2] = o /\ Ev.calls[i][3] = <<>>
       /\ Ev.ncalls = Len(Ev.calls)
    /\ UNCHANGED tvars
TDiedT == l <= Len(Tr) /\ Ev.e = "ok" /\ l' = l + 1 /\ UNCHANGED tvars   \* program reached its end
TSpecT == TInitT /\ [][TResetT \/ TTmpl \/ TDiedT]_<<tvars, l>>
Accepted ==
    IF TLCGet("stats").diameter - 1 = Len(Tr) THEN TRUE
    ELSE PrintT(<<"REJECTED_AT_LINE", TLCGet("stats").diameter>>) /\ FALSE
=============================================================================
