------------------------------- MODULE Yomm2 -------------------------------
(***************************************************************************)
(* Behavioural layer: yomm2 as a state machine.                            *)
(*                                                                         *)
(* Per policy p (a C++ policy type; every piece of library state is a      *)
(* static member keyed by it):                                             *)
(*   classes[p]  catalog of class registration records, registration order *)
(*   methods[p]  catalog of declared methods                               *)
(*   defs[p]     catalog of definitions (attached to a method id)          *)
(*   inst[p]     what the last update installed (a snapshot of the         *)
(*               catalogs, turned into the relations dispatch uses)        *)
(*   fresh[p]    no catalog change since the last successful update        *)
(*   handler[p]  what the error handler does: "throw" or "return"          *)
(*   vps         live virtual_ptr handles                                  *)
(*   dead        the process was aborted (specified outcome of an error    *)
(*               handler that returns)                                     *)
(*   obs         the observable result of the last action                  *)
(*                                                                         *)
(* One action per public entry point; the library is sequential, so the    *)
(* linearization point of each action is its return (or its throw).        *)
(* Class, method and definition identities are small integers.             *)
(***************************************************************************)
EXTENDS Dispatch, TLC

CONSTANTS Policy       \* set of policy identities

VARIABLES classes, methods, defs, inst, fresh, handler, vps, dead, obs
vars == <<classes, methods, defs, inst, fresh, handler, vps, dead, obs>>

NotInstalled == [ok |-> FALSE, epoch |-> 0]

SeqToSet(s) == {s[i] : i \in DOMAIN s}
RemoveAt(s, i) == SubSeq(s, 1, i - 1) \o SubSeq(s, i + 1, Len(s))

(***************************************************************************)
(* Inheritance as inferred from a presentation (sequence of registration   *)
(* records [r, c, bases, abs]): class D is acceptable where B is expected  *)
(* iff B is D or reachable from D through listed-base edges.  A record may  *)
(* list the class itself, indirect bases, duplicates; a class may have      *)
(* several records.                                                        *)
(***************************************************************************)
ClassSet(cs) == {cs[i].c : i \in DOMAIN cs}
BaseRel(cs)  == UNION {{<<cs[i].c, cs[i].bases[j]>> : j \in DOMAIN cs[i].bases} : i \in DOMAIN cs}
RECURSIVE UpClosure(_, _)
UpClosure(R, S) ==
    LET S2 == S \cup {e[2] : e \in {x \in R : x[1] \in S}}
    IN  IF S2 = S THEN S ELSE UpClosure(R, S2)
AncFn(cs) == LET R == BaseRel(cs) IN [c \in ClassSet(cs) |-> UpClosure(R, {c})]
AbstractSet(cs) == {cs[i].c : i \in {j \in DOMAIN cs : cs[j].abs}}

DeclaredMethods(ms) == {ms[i].m : i \in DOMAIN ms}
MethodVp(ms, m) == (CHOOSE i \in DOMAIN ms : ms[i].m = m) \* index
DefsOf(ds, m) == {[d |-> ds[i].d, vp |-> ds[i].vp] : i \in {j \in DOMAIN ds : ds[j].m = m}}

(* classes mentioned by the catalogs of p but not registered *)
Mentioned(p) ==
    {e[2] : e \in BaseRel(classes[p])}
    \cup UNION {SeqToSet(methods[p][i].vp) : i \in DOMAIN methods[p]}
    \cup UNION {SeqToSet(defs[p][i].vp) : i \in {j \in DOMAIN defs[p] : defs[p][j].m \in DeclaredMethods(methods[p])}}
UnknownClasses(p) == Mentioned(p) \ ClassSet(classes[p])

Snapshot(p) ==
    [ok      |-> TRUE,
     epoch   |-> inst[p].epoch + 1,
     cls     |-> ClassSet(classes[p]),
     anc     |-> AncFn(classes[p]),
     abs     |-> AbstractSet(classes[p]),
     mvp     |-> [m \in DeclaredMethods(methods[p]) |-> methods[p][MethodVp(methods[p], m)].vp],
     D       |-> [m \in DeclaredMethods(methods[p]) |-> DefsOf(defs[p], m)]]

(***************************************************************************)
(* The update report (C17): iff-content only.                              *)
(***************************************************************************)
Concrete(s) == s.cls \ s.abs
GapMethods(s, Cs) == {m \in DOMAIN s.mvp : HasGap(s.anc, Cs, s.mvp[m], s.D[m])}
AmbMethods(s, Cs) == {m \in DOMAIN s.mvp : HasAmbiguity(s.anc, Cs, s.mvp[m], s.D[m])}
ReportOK(s, rep) ==
    /\ (rep.not_implemented # 0)          <=> (GapMethods(s, s.cls) # {})
    /\ (rep.ambiguous # 0)                <=> (AmbMethods(s, s.cls) # {})
    /\ (rep.concrete_not_implemented # 0) <=> (GapMethods(s, Concrete(s)) # {})
    /\ (rep.concrete_ambiguous # 0)       <=> (AmbMethods(s, Concrete(s)) # {})

-----------------------------------------------------------------------------
Init ==
    /\ classes = [p \in Policy |-> <<>>]
    /\ methods = [p \in Policy |-> <<>>]
    /\ defs    = [p \in Policy |-> <<>>]
    /\ inst    = [p \in Policy |-> NotInstalled]
    /\ fresh   = [p \in Policy |-> FALSE]
    /\ handler = [p \in Policy |-> "throw"]
    /\ vps     = <<>>
    /\ dead    = FALSE
    /\ obs     = [k |-> "init"]

Touch(p) == fresh' = [fresh EXCEPT ![p] = FALSE]
Done     == obs' = [k |-> "done"]

RegisterClass(p, rec) ==
    /\ ~dead
    /\ \A i \in DOMAIN classes[p] : classes[p][i].r # rec.r
    /\ classes' = [classes EXCEPT ![p] = Append(@, rec)]
    /\ Touch(p) /\ Done
    /\ UNCHANGED <<methods, defs, inst, handler, vps, dead>>

UnregisterClass(p, r) ==
    /\ ~dead
    /\ \E i \in DOMAIN classes[p] :
         /\ classes[p][i].r = r
         /\ classes' = [classes EXCEPT ![p] = RemoveAt(@, i)]
    /\ Touch(p) /\ Done
    /\ UNCHANGED <<methods, defs, inst, handler, vps, dead>>

DeclareMethod(p, m, vp) ==
    /\ ~dead
    /\ m \notin DeclaredMethods(methods[p])
    /\ Len(vp) >= 1
    /\ methods' = [methods EXCEPT ![p] = Append(@, [m |-> m, vp |-> vp])]
    /\ Touch(p) /\ Done
    /\ UNCHANGED <<classes, defs, inst, handler, vps, dead>>

RetireMethod(p, m) ==
    /\ ~dead
    /\ \E i \in DOMAIN methods[p] :
         /\ methods[p][i].m = m
         /\ methods' = [methods EXCEPT ![p] = RemoveAt(@, i)]
    /\ Touch(p) /\ Done
    /\ UNCHANGED <<classes, defs, inst, handler, vps, dead>>

AddDefinition(p, m, d, vp) ==
    /\ ~dead
    /\ \A i \in DOMAIN defs[p] : ~(defs[p][i].m = m /\ defs[p][i].d = d)
    /\ defs' = [defs EXCEPT ![p] = Append(@, [m |-> m, d |-> d, vp |-> vp])]
    /\ Touch(p) /\ Done
    /\ UNCHANGED <<classes, methods, inst, handler, vps, dead>>

RemoveDefinition(p, m, d) ==
    /\ ~dead
    /\ \E i \in DOMAIN defs[p] :
         /\ defs[p][i].m = m /\ defs[p][i].d = d
         /\ defs' = [defs EXCEPT ![p] = RemoveAt(@, i)]
    /\ Touch(p) /\ Done
    /\ UNCHANGED <<classes, methods, inst, handler, vps, dead>>

SetHandler(p, kind) ==
    /\ ~dead
    /\ kind \in {"throw", "return"}
    /\ handler' = [handler EXCEPT ![p] = kind]
    /\ Done
    /\ UNCHANGED <<classes, methods, defs, inst, fresh, vps, dead>>

(***************************************************************************)
(* update.  Either some mentioned class is not registered: an unknown-      *)
(* class error naming one such class goes to the handler (which throws:    *)
(* nothing new is installed); or (policies with a type hash) the hash       *)
(* search may fail: reported, nothing usable installed; or the snapshot of  *)
(* the *current* catalogs -- and of nothing else -- is installed.  `rep` is  *)
(* the report the real update returned, constrained by ReportOK.           *)
(***************************************************************************)
UpdateUnknown(p, c) ==
    /\ ~dead
    /\ c \in UnknownClasses(p)
    /\ inst' = [inst EXCEPT ![p].ok = FALSE]
    /\ fresh' = [fresh EXCEPT ![p] = FALSE]
    /\ obs' = [k |-> "unknown", c |-> c]
    /\ UNCHANGED <<classes, methods, defs, handler, vps, dead>>

UpdateHashFail(p) ==
    /\ ~dead
    /\ UnknownClasses(p) = {}
    /\ inst' = [inst EXCEPT ![p].ok = FALSE]
    /\ fresh' = [fresh EXCEPT ![p] = FALSE]
    /\ obs' = [k |-> "hashfail"]
    /\ UNCHANGED <<classes, methods, defs, handler, vps, dead>>

UpdateOK(p, rep) ==
    /\ ~dead
    /\ UnknownClasses(p) = {}
    /\ LET s == Snapshot(p) IN
         /\ ReportOK(s, rep)
         /\ inst' = [inst EXCEPT ![p] = s]
    /\ fresh' = [fresh EXCEPT ![p] = TRUE]
    /\ obs' = [k |-> "updated"]
    /\ UNCHANGED <<classes, methods, defs, handler, vps, dead>>

(* the same, leaving the report unconstrained (used when a check does not  *)
(* gate on the report)                                                     *)
UpdateOKAnyReport(p) ==
    /\ ~dead
    /\ UnknownClasses(p) = {}
    /\ inst' = [inst EXCEPT ![p] = Snapshot(p)]
    /\ fresh' = [fresh EXCEPT ![p] = TRUE]
    /\ obs' = [k |-> "updated"]
    /\ UNCHANGED <<classes, methods, defs, handler, vps, dead>>

(* dispatch data encoded by update elsewhere from the same catalogs, installed by the decoder (decode.hpp): the same  *)
(* effect as a successful update of the current catalogs; there is no report                                         *)
InstallEncoded(p) == UpdateOKAnyReport(p)

(***************************************************************************)
(* Calls.  Legal only after a successful update with no catalog change      *)
(* since, with every dynamic class acceptable at its position.             *)
(***************************************************************************)
CallLegal(p, m, t) ==
    /\ ~dead /\ fresh[p] /\ inst[p].ok
    /\ m \in DOMAIN inst[p].mvp
    /\ Len(t) = Len(inst[p].mvp[m])
    /\ \A i \in DOMAIN t : t[i] \in inst[p].cls /\ inst[p].mvp[m][i] \in inst[p].anc[t[i]]

CallOutcome(p, m, t) == Outcome(inst[p].anc, inst[p].D[m], t)

(* the error record the handler must receive *)
ErrorRecord(p, m, t, o) ==
    [status |-> IF o = NoDef THEN 1 ELSE 2, arity |-> Len(inst[p].mvp[m]), types |-> t]

(* resolve(): never runs anything, never calls the handler *)
Resolve(p, m, t) ==
    /\ CallLegal(p, m, t)
    /\ obs' = [k |-> "resolved", o |-> CallOutcome(p, m, t)]
    /\ UNCHANGED <<classes, methods, defs, inst, fresh, handler, vps, dead>>

Call(p, m, t) ==
    /\ CallLegal(p, m, t)
    /\ LET o == CallOutcome(p, m, t) IN
         IF o >= 0
         THEN /\ obs' = [k |-> "ran", d |-> o, t |-> t]     \* definition o ran, on these very objects
              /\ dead' = dead
         ELSE /\ obs' = [k |-> "err", rec |-> ErrorRecord(p, m, t, o),
                         then |-> IF handler[p] = "throw" THEN "thrown" ELSE "aborted"]
              /\ dead' = (handler[p] = "return")
    /\ UNCHANGED <<classes, methods, defs, inst, fresh, handler, vps>>

(* C15: under a checked policy a call with an argument whose dynamic class   *)
(* is not registered is reported as an unknown class carrying that class;   *)
(* no definition runs.  (Unchecked policies: undefined, never exercised.)   *)
CallUnknown(p, m, t, c) ==
    /\ ~dead /\ fresh[p] /\ inst[p].ok
    /\ m \in DOMAIN inst[p].mvp /\ Len(t) = Len(inst[p].mvp[m])
    /\ \E i \in DOMAIN t : t[i] \notin inst[p].cls /\ c = t[i]
    /\ obs' = [k |-> "unknown", c |-> c]
    /\ UNCHANGED <<classes, methods, defs, inst, fresh, handler, vps, dead>>

(* what next refers to inside definition d of m, as of the last update *)
NextOf(p, m, d) ==
    LET x == CHOOSE x \in inst[p].D[m] : x.d = d IN NextTarget(inst[p].anc, inst[p].D[m], x)
ObserveNext(p, m, d) ==
    /\ ~dead /\ fresh[p] /\ inst[p].ok
    /\ m \in DOMAIN inst[p].D /\ \E x \in inst[p].D[m] : x.d = d
    /\ obs' = [k |-> "next", o |-> NextOf(p, m, d)]
    /\ UNCHANGED <<classes, methods, defs, inst, fresh, handler, vps, dead>>

-----------------------------------------------------------------------------
(***************************************************************************)
(* virtual_ptr (C09).  A handle remembers the policy, the dynamic class of  *)
(* its pointee, the object identity and the epoch it was created in.        *)
(* Direct handles are valid until the next update of their policy;         *)
(* indirect ones (ind, a property of the policy) for as long as the class  *)
(* stays registered.                                                       *)
(***************************************************************************)
VpValid(h) ==
    /\ inst[h.p].ok /\ fresh[h.p]
    /\ h.dyn \in inst[h.p].cls
    /\ (h.ind \/ h.epoch = inst[h.p].epoch)

(* st: the static class of the virtual_ptr (its template argument); route:  *)
(* how it is built.  Legal only for a registered dynamic class acceptable    *)
(* where st is expected; `final` (and make_virtual_shared, which builds the  *)
(* object itself) asserts that the dynamic class IS the static class.       *)
FinalRoutes == {"final", "sh_final", "mk"}
MakeVptr(p, id, st, dyn, oid, ind, route) ==
    /\ ~dead /\ fresh[p] /\ inst[p].ok /\ dyn \in inst[p].cls
    /\ st \in inst[p].anc[dyn]
    /\ route \in FinalRoutes => dyn = st
    /\ id \notin DOMAIN vps
    /\ vps' = [x \in DOMAIN vps \cup {id} |->
                 IF x = id THEN [p |-> p, dyn |-> dyn, oid |-> oid, ind |-> ind, epoch |-> inst[p].epoch] ELSE vps[x]]
    /\ obs' = [k |-> "vptr", oid |-> oid]
    /\ UNCHANGED <<classes, methods, defs, inst, fresh, handler, dead>>

(* An indirect handle holds the address of its class's v-table pointer, which update fills in later: for the exact    *)
(* static type (no look-up is needed) it may be created before update has run, or while the catalogs have changed  *)
(* since; it becomes usable with the next successful update.  The class must be registered by then -- here: now.    *)
MakeVptrEarly(p, id, st, dyn, oid, ind, route) ==
    /\ ~dead /\ ~(fresh[p] /\ inst[p].ok)
    /\ ind /\ dyn = st /\ dyn \in ClassSet(classes[p])
    /\ id \notin DOMAIN vps
    /\ vps' = [x \in DOMAIN vps \cup {id} |->
                 IF x = id THEN [p |-> p, dyn |-> dyn, oid |-> oid, ind |-> ind, epoch |-> inst[p].epoch] ELSE vps[x]]
    /\ obs' = [k |-> "vptr", oid |-> oid]
    /\ UNCHANGED <<classes, methods, defs, inst, fresh, handler, dead>>

(* checked policies (C15): an unregistered dynamic class is reported as an   *)
(* unknown class carrying that class; final with another dynamic type as a   *)
(* method-table error carrying the dynamic type.  Nothing is created.       *)
MakeVptrUnknown(p, dyn) ==
    /\ ~dead /\ fresh[p] /\ inst[p].ok /\ dyn \notin inst[p].cls
    /\ obs' = [k |-> "unknown", c |-> dyn]
    /\ UNCHANGED <<classes, methods, defs, inst, fresh, handler, vps, dead>>
MakeVptrNotFinal(p, st, dyn, route) ==
    /\ ~dead /\ fresh[p] /\ inst[p].ok
    /\ route \in FinalRoutes /\ dyn # st
    /\ obs' = [k |-> "mtable", c |-> dyn]
    /\ UNCHANGED <<classes, methods, defs, inst, fresh, handler, vps, dead>>

(* copy / move / converting construction / cast: same pointee, same validity *)
DeriveVptr(id, from) ==
    /\ ~dead /\ from \in DOMAIN vps /\ id \notin DOMAIN vps
    /\ VpValid(vps[from])
    /\ vps' = [x \in DOMAIN vps \cup {id} |-> IF x = id THEN vps[from] ELSE vps[x]]
    /\ obs' = [k |-> "vptr", oid |-> vps[from].oid]
    /\ UNCHANGED <<classes, methods, defs, inst, fresh, handler, dead>>

DropVptr(id) ==
    /\ id \in DOMAIN vps
    /\ vps' = [x \in DOMAIN vps \ {id} |-> vps[x]]
    /\ Done
    /\ UNCHANGED <<classes, methods, defs, inst, fresh, handler, dead>>

(* get(), operator* and operator-> give back the original object *)
GetVptr(id) ==
    /\ ~dead /\ id \in DOMAIN vps
    /\ obs' = [k |-> "vget", oid |-> vps[id].oid]
    /\ UNCHANGED <<classes, methods, defs, inst, fresh, handler, vps, dead>>

(* a call whose virtual arguments are handles behaves like the call on the pointees *)
VpCallLegal(p, m, hs) ==
    /\ \A i \in DOMAIN hs : hs[i] \in DOMAIN vps /\ vps[hs[i]].p = p /\ VpValid(vps[hs[i]])
    /\ CallLegal(p, m, [i \in DOMAIN hs |-> vps[hs[i]].dyn])
VpCall(p, m, hs) ==
    /\ VpCallLegal(p, m, hs)
    /\ LET t == [i \in DOMAIN hs |-> vps[hs[i]].dyn]
           o == CallOutcome(p, m, t) IN
         obs' = [k |-> "vcall", o |-> o, oids |-> IF o >= 0 THEN [i \in DOMAIN hs |-> vps[hs[i]].oid] ELSE <<>>]
    /\ UNCHANGED <<classes, methods, defs, inst, fresh, handler, vps, dead>>

-----------------------------------------------------------------------------
(***************************************************************************)
(* Properties of the behavioural layer.                                    *)
(***************************************************************************)
TypeOK ==
    /\ \A p \in Policy : inst[p].ok \in BOOLEAN /\ fresh[p] \in BOOLEAN
    /\ \A p \in Policy : fresh[p] => inst[p].ok
    /\ dead \in BOOLEAN

(* C07: the installed snapshot is a function of the current catalogs only *)
FreshEquivalence ==
    \A p \in Policy : fresh[p] =>
        /\ inst[p].anc = AncFn(classes[p])
        /\ inst[p].cls = ClassSet(classes[p])
        /\ \A m \in DOMAIN inst[p].D : inst[p].D[m] = DefsOf(defs[p], m)

(* C14: an action addressed to policy q leaves every other policy alone.   *)
(* (written as an action property; Touched(q) is supplied by the model)    *)
Isolation(q) ==
    \A p \in Policy \ {q} :
        /\ classes'[p] = classes[p] /\ methods'[p] = methods[p] /\ defs'[p] = defs[p]
        /\ inst'[p] = inst[p] /\ fresh'[p] = fresh[p] /\ handler'[p] = handler[p]
=============================================================================
