SPECIFICATION TSpec
CONSTANT Policy = {0, 1, 2}
CONSTANT Aspects = {}
POSTCONDITION Accepted
CHECK_DEADLOCK FALSE
