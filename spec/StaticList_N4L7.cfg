SPECIFICATION Spec
CONSTANTS Node = {1, 2, 3, 4}
 MaxLen = 7
 EMIT = TRUE
CONSTRAINT Bound
INVARIANTS Refines LastOK Detached SizeOK EmitH
CHECK_DEADLOCK FALSE
