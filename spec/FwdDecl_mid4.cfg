SPECIFICATION FSpec
CONSTANTS Idents <- Idents3
 Depth = 3
 MaxNames = 4
 Broken = FALSE
 EMIT = FALSE
INVARIANTS WriterIsWellFormed EmitReq
CHECK_DEADLOCK FALSE
