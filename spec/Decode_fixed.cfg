SPECIFICATION Spec
CONSTANTS MaxClasses = 3
 MaxEntries = 2
 MaxSlotsWords = 2
 Variant = "fixed"
INVARIANT Safe
CHECK_DEADLOCK FALSE
