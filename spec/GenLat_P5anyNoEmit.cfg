SPECIFICATION Spec
CONSTANTS N = 5
 MAXM = 2
 MODE = "any"
 EMIT = FALSE
INVARIANTS PresentationInvariant Emit
CHECK_DEADLOCK FALSE
