---------------------------- MODULE CompilerTables ----------------------------
(***************************************************************************)
(* Mechanism layer: a transcription of build_dispatch_tables (grouping of    *)
(* classes by applicable-definition mask, recursive table construction,      *)
(* selection routine, strides) and of the call-time walk of resolve_multi_*. *)
(* TLC checks WalkIsOracle: for every registry of the bounded universe, in   *)
(* every catalog order of the definitions, the cell the walk reaches holds    *)
(* exactly Outcome() of the declarative layer.  FixedBest = TRUE models the   *)
(* selection routine of the code (since the repair of D2); FixedBest = FALSE  *)
(* is the incremental elimination it replaced, kept to exhibit the           *)
(* order-dependent counterexample.                                          *)
(***************************************************************************)
\* prototype mechanism model: grouping by applicable-mask, recursive dispatch-table construction, selection routine, strides, call-time walk
EXTENDS Dispatch, TLC, SequencesExt, FiniteSetsExt
CONSTANTS N, AR, MAXD, FixedBest
Class == 1..N
PossibleEdges == {e \in Class \X Class : e[1] > e[2]}
VARIABLES edges, mvp, defs     \* defs : sequence (catalog order) of tuples
vars == <<edges, mvp, defs>>
RECURSIVE AncOf(_, _)
AncOf(E, c) == {c} \cup UNION {AncOf(E, e[2]) : e \in {x \in E : x[1] = c}}
Direct(E, c) == {e[2] : e \in {x \in E : x[1] = c}}
Reduced(E) == \A c \in Class : \A j \in Direct(E, c) : \A k \in Direct(E, c) : k # j => j \notin AncOf(E, k)
Tuples == [1..AR -> Class]

\* ---------------- declarative oracle: Dispatch.tla (definitions as records [d, vp])
DefRecs(D) == {[d |-> k, vp |-> D[k]] : k \in 1..Len(D)}
OracleOutcome(anc, D, t) == Outcome(anc, DefRecs(D), t)

\* ---------------- mechanism
\* is_more_specific as written in compiler.hpp:1168 (covariant_classes membership)
IsMoreSpecific(anc, a, b) ==
  LET RECURSIVE Scan(_, _)
      Scan(i, res) == IF i > AR THEN res
                      ELSE IF a[i] # b[i] THEN
                             IF b[i] \in anc[a[i]] THEN Scan(i + 1, TRUE)        \* a[i] in covariant(b[i])
                             ELSE IF a[i] \in anc[b[i]] THEN FALSE               \* b[i] in covariant(a[i])
                             ELSE Scan(i + 1, res)
                           ELSE Scan(i + 1, res)
  IN Scan(1, FALSE)
\* best() as written: incremental elimination over candidates in catalog order; returns a sequence of def indexes
RECURSIVE Elim(_, _, _, _, _)
\* scan 'best' list (seq) against spec s: returns [best |-> remaining, keep |-> BOOLEAN]
Elim(anc, D, s, bestseq, acc) ==
  IF bestseq = <<>> THEN [best |-> acc, keep |-> TRUE]
  ELSE LET b == Head(bestseq) IN
       IF IsMoreSpecific(anc, D[s], D[b]) THEN Elim(anc, D, s, Tail(bestseq), acc)             \* erase b
       ELSE IF IsMoreSpecific(anc, D[b], D[s]) THEN [best |-> acc \o bestseq, keep |-> FALSE]  \* break
       ELSE Elim(anc, D, s, Tail(bestseq), Append(acc, b))
RECURSIVE BestInc(_, _, _, _)
BestInc(anc, D, cands, bestseq) ==
  IF cands = <<>> THEN bestseq
  ELSE LET r == Elim(anc, D, Head(cands), bestseq, <<>>) IN
       BestInc(anc, D, Tail(cands), IF r.keep THEN Append(r.best, Head(cands)) ELSE r.best)
BestFixed(anc, D, cands) ==
  LET S == {cands[i] : i \in 1..Len(cands)}
      W == {k \in S : \A j \in S \ {k} : IsMoreSpecific(anc, D[k], D[j])}
  IN IF W # {} THEN SetToSeq(W) ELSE cands
Best(anc, D, cands) == IF FixedBest THEN BestFixed(anc, D, cands) ELSE BestInc(anc, D, cands, <<>>)
Cell(anc, D, maskset) ==   \* maskset: set of def indexes applicable
  LET cands == SelectSeq([k \in 1..Len(D) |-> k], LAMBDA k : k \in maskset)
      b == Best(anc, D, cands)
  IN IF Len(b) > 1 THEN -2 ELSE IF Len(b) = 0 THEN -1 ELSE b[1]
CovM(anc, c) == {x \in Class : c \in anc[x]}
Mask(anc, D, i, x) == {k \in 1..Len(D) : D[k][i] \in anc[x]}
\* groups of dimension i: distinct masks, numbered in a fixed order (stand-in for std::map<bitvec>)
MaskNum(m) == LET RECURSIVE S(_) S(T) == IF T = {} THEN 0 ELSE LET k == CHOOSE k \in T : TRUE IN 2^k + S(T \ {k}) IN S(m)
GroupSeq(anc, D, vp, i) == SortSeq(SetToSeq({Mask(anc, D, i, x) : x \in CovM(anc, vp[i])}), LAMBDA a, b : MaskNum(a) < MaskNum(b))
GroupIndex(gs, m) == (CHOOSE j \in 1..Len(gs) : gs[j] = m) - 1
\* recursive table construction (build_dispatch_table): dim from AR down to 1, appends cells
RECURSIVE Build(_, _, _, _, _)
RECURSIVE BuildGroups(_, _, _, _, _, _)
Build(anc, D, G, dim, cand) == BuildGroups(anc, D, G, dim, cand, G[dim])
BuildGroups(anc, D, G, dim, cand, gs) ==
  IF gs = <<>> THEN <<>>
  ELSE LET mask == cand \cap Head(gs) IN
       (IF dim = 1 THEN <<Cell(anc, D, mask)>> ELSE Build(anc, D, G, dim - 1, mask)) \o BuildGroups(anc, D, G, dim, cand, Tail(gs))
Strides(G) == [d \in 1..AR |-> IF d = 1 THEN 1 ELSE LET RECURSIVE P(_) P(j) == IF j = 0 THEN 1 ELSE Len(G[j]) * P(j - 1) IN P(d - 1)]
Compile(anc, D, vp) ==
  LET G == [i \in 1..AR |-> GroupSeq(anc, D, vp, i)]
  IN [groups |-> G, strides |-> Strides(G), table |-> Build(anc, D, G, AR, 1..Len(D))]
\* call-time walk: v-table cell of class x for dim i holds the group index; index = sum g_i * stride_i
Walk(anc, D, c, t) ==
  LET RECURSIVE Sum(_) Sum(i) == IF i = 0 THEN 0 ELSE GroupIndex(c.groups[i], Mask(anc, D, i, t[i])) * c.strides[i] + Sum(i - 1)
  IN c.table[Sum(AR) + 1]

DefSets == UNION {kSubset(k, Tuples) : k \in 0..MAXD}
Init == /\ edges \in {E \in SUBSET PossibleEdges : Reduced(E)}
        /\ mvp \in Tuples
        /\ \E S \in DefSets : \E order \in {SetToSeqs(S)} : defs \in order
        /\ LET anc == [c \in Class |-> AncOf(edges, c)] IN \A k \in 1..Len(defs) : \A i \in 1..AR : mvp[i] \in anc[defs[k][i]]
Next == UNCHANGED vars
Spec == Init /\ [][Next]_vars
\* the 5-class lattice on which MoreSpecific is not transitive (see GenReg.tla)
D2Edges == {<<2, 1>>, <<3, 2>>, <<4, 1>>, <<5, 3>>, <<5, 4>>}
InitD2 == /\ edges = D2Edges
          /\ mvp = [i \in 1..AR |-> 1]
          /\ \E S \in DefSets : \E order \in {SetToSeqs(S)} : defs \in order
SpecD2 == InitD2 /\ [][Next]_vars
WalkIsOracle ==
  LET anc == [c \in Class |-> AncOf(edges, c)]
      comp == Compile(anc, defs, mvp)
  IN \A t \in Tuples : (\A i \in 1..AR : mvp[i] \in anc[t[i]]) => Walk(anc, defs, comp, t) = OracleOutcome(anc, defs, t)
=============================================================================
