SPECIFICATION VSpec
CONSTANTS Policy = {0, 1}
 MaxH = 2
 MaxSteps = 7
INVARIANTS TypeOK ValidMeansKnown DirectNeverOutlivesUpdate IndirectSurvives CallsDefined EarlyOnlyIndirect
CHECK_DEADLOCK FALSE
