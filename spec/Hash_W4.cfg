SPECIFICATION HSpec
CONSTANTS W = 4
 Universe = {0, 1, 3, 8, 9, 14}
 MaxIds = 3
 Budget = 1
 MaxUpdates = 2
INVARIANTS ContractHolds FailsOnlyWhenExhausted MFits
CHECK_DEADLOCK FALSE
