SPECIFICATION Spec
CONSTANTS N = 4
 AR = 2
 MAXD = 2
 EMIT = TRUE
INVARIANTS OracleTheorems Emit
CHECK_DEADLOCK FALSE
