------------------------------ MODULE Yomm2MC ------------------------------
(***************************************************************************)
(* Bounded model of the behavioural layer: histories of registration,       *)
(* unregistration and update over one or several policies, drawn from fixed  *)
(* pools of class records, methods and definitions (as when shared           *)
(* libraries are loaded and unloaded).  TLC checks the invariants of         *)
(* Yomm2.tla on every reachable state, the isolation action property, and    *)
(* prints every history as a JSON script (R binding for C07 / C10 / C14):     *)
(* the dyn harness replays each one on the real library, observing every      *)
(* method's outcome table and every next slot after each update, and          *)
(* TraceYomm2 validates the recorded trace.                                 *)
(***************************************************************************)
EXTENDS Yomm2, Json

CONSTANTS MaxLen,      \* history length
          NC, NM, ND,  \* how many items of each pool are used
          EMIT

VARIABLE hist
mvars == <<vars, hist>>

(* pools: a diamond 1; 2:1; 3:1; 4:{2,3} registered with direct bases, an    *)
(* extra record for class 2 (a class may be registered by two statements),  *)
(* a one-parameter and a two-parameter method, definitions on both.         *)
ClassPool == <<[r |-> 1, c |-> 1, bases |-> <<>>, abs |-> FALSE],
               [r |-> 2, c |-> 2, bases |-> <<1>>, abs |-> FALSE],
               [r |-> 3, c |-> 3, bases |-> <<1>>, abs |-> FALSE],
               [r |-> 4, c |-> 4, bases |-> <<2, 3>>, abs |-> FALSE],
               [r |-> 5, c |-> 2, bases |-> <<2, 1>>, abs |-> FALSE]>>
MethodPool == <<[m |-> 1, vp |-> <<1>>], [m |-> 2, vp |-> <<1, 1>>]>>
DefPool == <<[m |-> 1, d |-> 0, vp |-> <<2>>],
             [m |-> 2, d |-> 0, vp |-> <<2, 3>>],
             [m |-> 1, d |-> 1, vp |-> <<4>>],
             [m |-> 2, d |-> 1, vp |-> <<3, 2>>],
             [m |-> 2, d |-> 2, vp |-> <<4, 4>>],
             [m |-> 1, d |-> 2, vp |-> <<1>>]>>

Log(op) == hist' = Append(hist, op)

MCInit == Init /\ hist = <<>>

RegC(p, i)   == RegisterClass(p, ClassPool[i]) /\ Log([op |-> "c", p |-> p, x |-> ClassPool[i]])
UnregC(p, i) == UnregisterClass(p, ClassPool[i].r) /\ Log([op |-> "uc", p |-> p, x |-> ClassPool[i]])
DeclM(p, i)  == DeclareMethod(p, MethodPool[i].m, MethodPool[i].vp) /\ Log([op |-> "m", p |-> p, x |-> MethodPool[i]])
RetM(p, i)   == RetireMethod(p, MethodPool[i].m) /\ Log([op |-> "um", p |-> p, x |-> MethodPool[i]])
AddD(p, i)   == /\ DefPool[i].m \in DeclaredMethods(methods[p]) \/ \E j \in DOMAIN defs[p] : defs[p][j].m = DefPool[i].m
                /\ AddDefinition(p, DefPool[i].m, DefPool[i].d, DefPool[i].vp) /\ Log([op |-> "d", p |-> p, x |-> DefPool[i]])
RemD(p, i)   == RemoveDefinition(p, DefPool[i].m, DefPool[i].d) /\ Log([op |-> "ud", p |-> p, x |-> DefPool[i]])
(* update: whichever outcome the catalogs determine; the report is not      *)
(* constrained in this model (ReportOK is decided on traces)                *)
Upd(p) ==
    /\ \/ UpdateOKAnyReport(p)
       \/ \E c \in UnknownClasses(p) : UpdateUnknown(p, c)
    /\ Log([op |-> "u", p |-> p, x |-> [m |-> 0]])

Act(p) ==
    \/ \E i \in 1..NC : RegC(p, i) \/ UnregC(p, i)
    \/ \E i \in 1..NM : DeclM(p, i) \/ RetM(p, i)
    \/ \E i \in 1..ND : AddD(p, i) \/ RemD(p, i)
    \/ Upd(p)

MCNext == \E p \in Policy : Act(p)
MCSpec == MCInit /\ [][MCNext]_mvars

Bound == Len(hist) <= MaxLen

(* C14 as an action property of the specification: every step is an action  *)
(* of one policy that leaves every other policy's state untouched           *)
IsolationProp == [][\E q \in Policy : Act(q) /\ Isolation(q)]_mvars

(* what a later update installs does not depend on the path (C07)           *)
PathIndependent == FreshEquivalence

Emit == IF EMIT /\ Len(hist) = MaxLen THEN PrintT(ToJson(hist)) ELSE TRUE
=============================================================================
