SPECIFICATION Spec
CONSTANTS N = 4
 AR = 2
 MAXD = 2
 FixedBest = TRUE
INVARIANT WalkIsOracle
CHECK_DEADLOCK FALSE
