SPECIFICATION SpecD2
CONSTANTS N = 5
 AR = 2
 MAXD = 3
 EMIT = TRUE
INVARIANTS OracleTheorems Emit
CHECK_DEADLOCK FALSE
