------------------------------ MODULE TraceArgs ------------------------------
EXTENDS Args, IOUtils
VARIABLE l
Tr == ndJsonDeserialize(IOEnv.TRACE)
Ev == Tr[l]
TInitA == l = 1 /\ sc = [kind |-> "ref", shape |-> "same", pos |-> 0, cat |-> "lref", ret |-> RetOf("ref", "same", 0, "lref")]
TResetA == l <= Len(Tr) /\ Ev.e \in {"reset", "ok"} /\ l' = l + 1 /\ UNCHANGED sc
TArgs ==
    /\ l <= Len(Tr) /\ Ev.e = "args" /\ l' = l + 1
    /\ Ev.sc \in Family
    /\ Ev.ran                                          \* the definition did run
    /\ Accept(Ev.sc, Ev.r)
    /\ sc' = Ev.sc
TSpecA == TInitA /\ [][TResetA \/ TArgs]_<<sc, l>>
Accepted ==
    IF TLCGet("stats").diameter - 1 = Len(Tr) THEN TRUE
    ELSE PrintT(<<"REJECTED_AT_LINE", TLCGet("stats").diameter>>) /\ FALSE
=============================================================================
