----------------------------- MODULE TraceHash -----------------------------
(***************************************************************************)
(* Validates what the real hashed policies show after update (C05).  The    *)
(* hash is treated as an unknown function: each "hq" event lists, per        *)
(* registered class, the id, the index the installed hash sends it to,       *)
(* whether the pointer vector holds that class's v-table pointer there, and   *)
(* the vector size.  64-bit ids are compared as strings.  What is required    *)
(* is the contract of Hash.tla: distinct indexes inside the vector, each       *)
(* holding the right pointer -- or a reported search failure; and, with the    *)
(* checked hash, every id that is not registered is reported as unknown,       *)
(* carrying that very id.                                                   *)
(***************************************************************************)
EXTENDS Integers, Sequences, FiniteSets, TLC, Json, IOUtils

VARIABLES l, reg, ok
Tr == ndJsonDeserialize(IOEnv.TRACE)
Ev == Tr[l]
IsEvent(k) == l <= Len(Tr) /\ Tr[l].e = k /\ l' = l + 1
ToSet(s) == {s[i] : i \in DOMAIN s}

TInit == l = 1 /\ reg = {} /\ ok = FALSE
TReset == IsEvent("reset") /\ reg' = {} /\ ok' = FALSE
(* catalog events: the set of registered ids *)
TReg   == IsEvent("hreg")   /\ reg' = reg \cup {Ev.id} /\ ok' = FALSE
TUnreg == IsEvent("hunreg") /\ reg' = reg \ {Ev.id}    /\ ok' = FALSE
TPass  == /\ l <= Len(Tr) /\ Tr[l].e \in {"class", "unclass", "method", "def", "node", "handler", "end", "budget"} /\ l' = l + 1
          /\ UNCHANGED <<reg, ok>>

(* update: success with a perfect hash on exactly the registered ids, or a reported search failure *)
RowIds(rows) == {rows[i][1] : i \in DOMAIN rows}
TUpdateOK ==
    /\ IsEvent("hq")
    /\ Ev.res = "ok"
    /\ RowIds(Ev.rows) = reg /\ Len(Ev.rows) = Cardinality(reg)
    /\ \A i \in DOMAIN Ev.rows : Ev.rows[i][2] >= 0 /\ Ev.rows[i][2] < Ev.size /\ Ev.rows[i][3] = TRUE
    /\ Cardinality({Ev.rows[i][2] : i \in DOMAIN Ev.rows}) = Len(Ev.rows)
    /\ ok' = TRUE /\ UNCHANGED reg
TUpdateFail ==
    /\ IsEvent("hq")
    /\ Ev.res = "hashfail" /\ Ev.hashed
    /\ ok' = FALSE /\ UNCHANGED reg
(* look-ups: a registered id is found (and leads to its own class); an unregistered one is reported, with that id *)
TLookup ==
    /\ IsEvent("hl")
    /\ ok
    /\ IF Ev.id \in reg THEN Ev.res = "found" /\ Ev.same
       ELSE Ev.checked /\ Ev.res = "unknown" /\ Ev.rid = Ev.id
    /\ UNCHANGED <<reg, ok>>
TNext == TReset \/ TReg \/ TUnreg \/ TPass \/ TUpdateOK \/ TUpdateFail \/ TLookup
TSpec == TInit /\ [][TNext]_<<l, reg, ok>>
Accepted ==
    IF TLCGet("stats").diameter - 1 = Len(Tr) THEN TRUE
    ELSE PrintT(<<"REJECTED_AT_LINE", TLCGet("stats").diameter>>) /\ FALSE
=============================================================================
