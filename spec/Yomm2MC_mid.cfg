SPECIFICATION MCSpec
CONSTANTS Policy = {0}
 MaxLen = 6
 NC = 4
 NM = 1
 ND = 3
 EMIT = TRUE
CONSTRAINT Bound
INVARIANTS TypeOK PathIndependent Emit
PROPERTY IsolationProp
CHECK_DEADLOCK FALSE
