SPECIFICATION Spec
CONSTANTS Node = {1, 2, 3, 4, 5, 6}
 MaxLen = 0
 EMIT = FALSE
VIEW NoHistView
INVARIANTS Refines LastOK Detached SizeOK
CHECK_DEADLOCK FALSE
