---------------------------- MODULE CompilerSlots ----------------------------
(***************************************************************************)
(* Mechanism layer: a transcription of augment_classes + assign_slots        *)
(* (detail/compiler.hpp).  What takes a slot is a (method, virtual parameter) *)
(* pair placed on the parameter's class: a method with n virtual parameters  *)
(* contributes n entries, several entries may sit on one class (m(A, A), or   *)
(* several methods on A: up to MaxMult per class).  TLC checks, for every     *)
(* lattice of the bounded universe and every placement of entries, the        *)
(* declarative statement CellsDisjoint of C04/C08: in every class the slots  *)
(* of the entries applicable to it are distinct and inside its v-table.       *)
(* Closed = TRUE models the code (base lists closed transitively, as         *)
(* augment_classes does since the repair of D4); Closed = FALSE keeps the    *)
(* lists as registered with direct bases only and exhibits the collision.    *)
(***************************************************************************)
\* prototype of the mechanism model: augment_classes + assign_slots (compiler.hpp), uni-methods only
EXTENDS Integers, Sequences, FiniteSets, TLC, SequencesExt, FiniteSetsExt
CONSTANTS N, Closed,  \* Closed = TRUE: base lists transitively closed (post-fix / use_classes), FALSE: direct bases only
          MaxMult     \* how many (method, virtual parameter) pairs may sit on one class: m(A, A), or several methods on A
Class == 1..N
PossibleEdges == {e \in Class \X Class : e[1] > e[2]}
VARIABLES edges, mset, mult
vars == <<edges, mset, mult>>

RECURSIVE AncOf(_, _)
AncOf(E, c) == {c} \cup UNION {AncOf(E, e[2]) : e \in {x \in E : x[1] = c}}
Direct(E, c) == {e[2] : e \in {x \in E : x[1] = c}}
Reduced(E) == \A c \in Class : \A j \in Direct(E, c) : \A k \in Direct(E, c) : k # j => j \notin AncOf(E, k)

\* ---- augment_classes, classes in catalog order 1..N, base lists in increasing id order
Listed(E, c) == IF Closed THEN AncOf(E, c) \ {c} ELSE Direct(E, c)
Weight(E, c) == Cardinality(Listed(E, c))
\* sort listed bases by weight desc; ties by id (deterministic stand-in for std::sort)
SortedBases(E, c) == SortSeq(SetToSeq(Listed(E, c)), LAMBDA a, b : Weight(E, a) > Weight(E, b) \/ (Weight(E, a) = Weight(E, b) /\ a < b))
RECURSIVE DirectScan(_, _, _, _)
DirectScan(E, s, marked, acc) ==
  IF s = <<>> THEN acc
  ELSE LET b == Head(s) IN
       IF b \in marked THEN DirectScan(E, Tail(s), marked, acc)
       ELSE DirectScan(E, Tail(s), marked \cup Listed(E, b), Append(acc, b))
DirectBases(E, c) == DirectScan(E, SortedBases(E, c), {}, <<>>)          \* sequence
DB(E) == [c \in Class |-> DirectBases(E, c)]
DirectDerived(db, b) == SelectSeq([i \in 1..N |-> i], LAMBDA d : \E k \in 1..Len(db[d]) : db[d][k] = b)  \* catalog order
RECURSIVE CovOf(_, _)
CovOf(db, c) == {c} \cup UNION {CovOf(db, DirectDerived(db, c)[k]) : k \in 1..Len(DirectDerived(db, c))}

\* ---- assign_slots. methods: sequence of classes (method k has its single vp on mseq[k])
\* state: [slot : method -> Nat (or -1), used : Class -> SUBSET Nat, reserved : Class -> SUBSET Nat, mark : SUBSET Class, first: Class -> Nat, len : Class -> Nat]
UsedBy(ms, c) == SelectSeq([k \in 1..Len(ms) |-> k], LAMBDA k : ms[k] = c)
FirstFree(S) == CHOOSE s \in 0..(Cardinality(S)) : s \notin S /\ \A t \in 0..(s - 1) : t \in S

RECURSIVE TreeVisit(_, _, _, _, _)
\* returns state after visiting class c with base_slot
RECURSIVE TreeChildren(_, _, _, _, _)
TreeVisit(db, ms, st, c, base) ==
  LET ub == UsedBy(ms, c)
      st1 == [st EXCEPT !.slot = [k \in DOMAIN st.slot |-> IF \E i \in 1..Len(ub) : ub[i] = k THEN base + (CHOOSE i \in 1..Len(ub) : ub[i] = k) - 1 ELSE st.slot[k]],
                        !.first[c] = 0, !.len[c] = base + Len(ub), !.tree[c] = TRUE]
  IN TreeChildren(db, ms, st1, DirectDerived(db, c), base + Len(ub))
TreeChildren(db, ms, st, ds, nextslot) ==
  IF ds = <<>> THEN st ELSE TreeChildren(db, ms, TreeVisit(db, ms, st, Head(ds), nextslot), Tail(ds), nextslot)

\* lattice: transitive_bases of a class = Listed (as the code uses cls.transitive_bases)
RECURSIVE LatticeVisit(_, _, _, _, _)
RECURSIVE LatticeMethods(_, _, _, _, _, _)
RECURSIVE LatticeChildren(_, _, _, _, _)
MergeInto(f, src, targets) == [x \in DOMAIN f |-> IF x \in targets THEN f[x] \cup src ELSE f[x]]
LatticeMethods(E, db, ms, st, c, ub) ==
  IF ub = <<>> THEN st
  ELSE LET k == Head(ub)
           unavailable == st.used[c] \cup st.reserved[c]
           s == FirstFree(unavailable)
           used1 == [st.used EXCEPT ![c] = @ \cup {s}]
           res1 == [st.reserved EXCEPT ![c] = @ \cup {s}]
           \* reserve cls.used_slots in all transitive bases
           res2 == MergeInto(res1, used1[c], Listed(E, c))
           cov == CovOf(db, c) \ {c}
           \* assign cls.used_slots into all covariant classes' used; and reserve in their transitive bases
           used2 == MergeInto(used1, used1[c], cov)
           res3 == MergeInto(res2, used1[c], UNION {Listed(E, v) : v \in cov})
       IN LatticeMethods(E, db, ms, [st EXCEPT !.slot[k] = s, !.used = used2, !.reserved = res3], c, Tail(ub))
LatticeVisit(E, db, ms, st, c) ==
  IF c \in st.mark THEN st
  ELSE LET st1 == LatticeMethods(E, db, ms, [st EXCEPT !.mark = @ \cup {c}], c, UsedBy(ms, c))
       IN LatticeChildren(E, db, ms, st1, DirectDerived(db, c))
LatticeChildren(E, db, ms, st, ds) ==
  IF ds = <<>> THEN st ELSE LatticeChildren(E, db, ms, LatticeVisit(E, db, ms, st, Head(ds)), Tail(ds))

RECURSIVE Roots(_, _, _, _, _)
Roots(E, db, ms, st, cs) ==
  IF cs = <<>> THEN st
  ELSE LET c == Head(cs) IN
       IF Len(db[c]) # 0 THEN Roots(E, db, ms, st, Tail(cs))
       ELSE IF \A v \in CovOf(db, c) : Len(db[v]) <= 1
            THEN Roots(E, db, ms, TreeVisit(db, ms, st, c, 0), Tail(cs))
            ELSE Roots(E, db, ms, LatticeVisit(E, db, ms, st, c), Tail(cs))
Assign(E, ms) ==
  LET db == DB(E)
      st0 == [slot |-> [k \in 1..Len(ms) |-> -1], used |-> [c \in Class |-> {}], reserved |-> [c \in Class |-> {}], mark |-> {},
              first |-> [c \in Class |-> 0], len |-> [c \in Class |-> 0], tree |-> [c \in Class |-> FALSE]]
      st1 == Roots(E, db, ms, st0, [i \in 1..N |-> i])
  IN [st1 EXCEPT !.first = [c \in Class |-> IF st1.used[c] = {} THEN st1.first[c] ELSE Min(st1.used[c])],
                 !.len = [c \in Class |-> IF st1.used[c] = {} THEN st1.len[c] ELSE Max(st1.used[c]) + 1 - Min(st1.used[c])]]

Init == /\ edges \in {E \in SUBSET PossibleEdges : Reduced(E)}
        /\ mset \in (SUBSET Class) \ {{}}
        /\ mult \in [Class -> 1..MaxMult]
        /\ \A c \in Class \ mset : mult[c] = 1
Next == UNCHANGED vars
Spec == Init /\ [][Next]_vars

CellsDisjoint ==
  LET ms == SetToSeq(mset)   \* some fixed order
      ms1 == SortSeq(ms, LAMBDA a, b : a < b)
      \* every class of mset as many times as pairs sit on it
      RECURSIVE Rep(_)
      Rep(q) == IF q = <<>> THEN <<>> ELSE [i \in 1..mult[Head(q)] |-> Head(q)] \o Rep(Tail(q))
      ms2 == Rep(ms1)
      st == Assign(edges, ms2)
  IN \A c \in Class :
       LET app == {k \in 1..Len(ms2) : ms2[k] \in AncOf(edges, c)} IN
       /\ \A k1 \in app : \A k2 \in app : k1 # k2 => st.slot[k1] # st.slot[k2]
       /\ \A k \in app : st.slot[k] >= st.first[c] /\ st.slot[k] < st.first[c] + st.len[c]
=============================================================================
