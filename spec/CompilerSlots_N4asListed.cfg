SPECIFICATION Spec
CONSTANTS N = 4
 MaxMult = 2
 Closed = FALSE
INVARIANT CellsDisjoint
CHECK_DEADLOCK FALSE
