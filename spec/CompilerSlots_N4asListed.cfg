SPECIFICATION Spec
CONSTANTS N = 4
 Closed = FALSE
INVARIANT CellsDisjoint
CHECK_DEADLOCK FALSE
