SPECIFICATION OSpec
CONSTANTS MaxArity = 6
 Fixed = FALSE
INVARIANTS EmitterOK CheckOK
CHECK_DEADLOCK FALSE
