-------------------------------- MODULE Args --------------------------------
(***************************************************************************)
(* C11.  What a definition must receive.  The family of programs is the      *)
(* product of                                                             *)
(*   Kind   how the virtual parameter is declared                          *)
(*   Shape  how the definition's class D derives from the method's class B  *)
(*   Pos    position of the virtual parameter among three parameters        *)
(*   Cat    category of the non-virtual parameter next to it               *)
(* Each generated program calls a method whose single definition takes D,    *)
(* with an object of dynamic class D, and reports what the definition saw.   *)
(* Accept is the acceptance condition on that report.  TLC enumerates the     *)
(* family (ArgsMC configuration) and validates every report (TraceArgs).      *)
(***************************************************************************)
EXTENDS Integers, Sequences, FiniteSets, TLC, Json

Kind  == {"ref", "rref", "ptr", "shared", "cshared", "vptr", "vshared", "cvptr", "cvshared"}
Shape == {"same", "single", "second", "virtual", "two"}
Pos   == {0, 1, 2}
Cat   == {"val_l", "val_r", "lref", "clref", "rref", "moveonly"}

(* how the result comes back: by value, nothing, a reference, a move-only object, a copy-counting object, a       *)
(* pointer that needs an adjustment.  The return kind is a derived attribute (it rotates through the family, so    *)
(* every parameter kind and every category meets every return kind without multiplying the number of programs)     *)
RetSeq == <<"val", "void", "ref", "moveonly", "tracked", "covptr">>    \* covptr: a pointer converted to a base at a non-zero offset
Ret == {RetSeq[i] : i \in DOMAIN RetSeq}
KindIdx == "ref" :> 0 @@ "rref" :> 1 @@ "ptr" :> 2 @@ "shared" :> 3 @@ "cshared" :> 4 @@ "vptr" :> 5 @@ "vshared" :> 6 @@ "cvptr" :> 7 @@ "cvshared" :> 8
ShapeIdx == "same" :> 0 @@ "single" :> 1 @@ "second" :> 2 @@ "virtual" :> 3 @@ "two" :> 4
CatIdx == "val_l" :> 0 @@ "val_r" :> 1 @@ "lref" :> 2 @@ "clref" :> 3 @@ "rref" :> 4 @@ "moveonly" :> 5
RetOf(k, s, p, c) == RetSeq[((KindIdx[k] + 2 * ShapeIdx[s] + p + 3 * CatIdx[c]) % 6) + 1]
Family == {[kind |-> k, shape |-> s, pos |-> p, cat |-> c, ret |-> RetOf(k, s, p, c)] : k \in Kind, s \in Shape, p \in Pos, c \in Cat}

SharedKinds == {"shared", "cshared", "vshared", "cvshared"}
RefCats == {"lref", "clref", "rref"}

(* the report: [self_ok, oid_ok, owner_ok, nv_ok, copies, moves, ret_ok] *)
Accept(sc, r) ==
    /\ r.self_ok                       \* the parameter designates the D sub-object of the caller's object (address adjusted)
    /\ r.oid_ok                        \* ... of the very object the caller passed
    /\ (sc.kind \in SharedKinds => r.owner_ok)       \* same shared ownership
    /\ r.nv_ok                         \* non-virtual argument: same referent / equal value
    /\ r.ret_ok                        \* the result comes back unchanged: equal value, or the very object for a reference
    /\ r.rcopies = 0                   \* nothing is copied between the definition's entry and the caller getting the result
    /\ (sc.cat \in RefCats => r.copies = 0 /\ r.moves = 0)
    /\ (sc.cat = "val_r" => r.copies = 0)            \* an rvalue is never copied
    /\ (sc.cat = "val_l" => r.copies = 1)            \* exactly the copy made at the call site
    /\ (sc.cat = "moveonly" => r.copies = 0)

VARIABLE sc
AInit == sc \in Family
ASpec == AInit /\ [][UNCHANGED sc]_sc
CONSTANT EMIT
EmitA == IF EMIT THEN PrintT(ToJson(sc)) ELSE TRUE
(* sanity of the acceptance condition: a perfect report is accepted, a report with a wrong address is not *)
Perfect == [self_ok |-> TRUE, oid_ok |-> TRUE, owner_ok |-> TRUE, nv_ok |-> TRUE, ret_ok |-> TRUE,
            copies |-> IF sc.cat = "val_l" THEN 1 ELSE 0, moves |-> 0, rcopies |-> 0]
AcceptSane == Accept(sc, Perfect) /\ ~Accept(sc, [Perfect EXCEPT !.self_ok = FALSE]) /\ ~Accept(sc, [Perfect EXCEPT !.copies = 2]) /\ ~Accept(sc, [Perfect EXCEPT !.rcopies = 1])
(* every parameter kind and every category meets every return kind *)
RetCoverage == /\ \A k \in Kind, r \in Ret : \E s \in Family : s.kind = k /\ s.ret = r
               /\ \A c \in Cat, r \in Ret : \E s \in Family : s.cat = c /\ s.ret = r
               /\ \A h \in Shape, r \in Ret : \E s \in Family : s.shape = h /\ s.ret = r
=============================================================================
