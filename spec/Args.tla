-------------------------------- MODULE Args --------------------------------
(***************************************************************************)
(* C11.  What a definition must receive.  The family of programs is the      *)
(* product of                                                             *)
(*   Kind   how the virtual parameter is declared                          *)
(*   Shape  how the definition's class D derives from the method's class B  *)
(*   Pos    position of the virtual parameter among three parameters        *)
(*   Cat    category of the non-virtual parameter next to it               *)
(* Each generated program calls a method whose single definition takes D,    *)
(* with an object of dynamic class D, and reports what the definition saw.   *)
(* Accept is the acceptance condition on that report.  TLC enumerates the     *)
(* family (ArgsMC configuration) and validates every report (TraceArgs).      *)
(***************************************************************************)
EXTENDS Integers, Sequences, FiniteSets, TLC, Json

Kind  == {"ref", "rref", "ptr", "shared", "cshared", "vptr", "vshared", "cvptr", "cvshared"}
Shape == {"same", "single", "second", "virtual", "two"}
Pos   == {0, 1, 2}
Cat   == {"val_l", "val_r", "lref", "clref", "rref", "moveonly"}

SharedKinds == {"shared", "cshared", "vshared", "cvshared"}
RefCats == {"lref", "clref", "rref"}

(* the report: [self_ok, oid_ok, owner_ok, nv_ok, copies, moves, ret_ok] *)
Accept(sc, r) ==
    /\ r.self_ok                       \* the parameter designates the D sub-object of the caller's object (address adjusted)
    /\ r.oid_ok                        \* ... of the very object the caller passed
    /\ (sc.kind \in SharedKinds => r.owner_ok)       \* same shared ownership
    /\ r.nv_ok                         \* non-virtual argument: same referent / equal value
    /\ r.ret_ok                        \* the return value comes back unchanged
    /\ (sc.cat \in RefCats => r.copies = 0 /\ r.moves = 0)
    /\ (sc.cat = "val_r" => r.copies = 0)            \* an rvalue is never copied
    /\ (sc.cat = "val_l" => r.copies = 1)            \* exactly the copy made at the call site
    /\ (sc.cat = "moveonly" => r.copies = 0)

VARIABLE sc
AInit == sc \in [kind : Kind, shape : Shape, pos : Pos, cat : Cat]
ASpec == AInit /\ [][UNCHANGED sc]_sc
CONSTANT EMIT
EmitA == IF EMIT THEN PrintT(ToJson(sc)) ELSE TRUE
(* sanity of the acceptance condition: a perfect report is accepted, a report with a wrong address is not *)
Perfect == [self_ok |-> TRUE, oid_ok |-> TRUE, owner_ok |-> TRUE, nv_ok |-> TRUE, ret_ok |-> TRUE,
            copies |-> IF sc.cat = "val_l" THEN 1 ELSE 0, moves |-> 0]
AcceptSane == Accept(sc, Perfect) /\ ~Accept(sc, [Perfect EXCEPT !.self_ok = FALSE]) /\ ~Accept(sc, [Perfect EXCEPT !.copies = 2])
=============================================================================
