SPECIFICATION HSpec
CONSTANTS W = 5
 Universe = {0, 1, 3, 8, 17, 30}
 MaxIds = 3
 Budget = 1
 MaxUpdates = 2
INVARIANTS ContractHolds FailsOnlyWhenExhausted MFits
CHECK_DEADLOCK FALSE
