------------------------------ MODULE Templates ------------------------------
(***************************************************************************)
(* C20.  What the template helpers of templates.hpp must compute:           *)
(*   product<L1, ..., Ln>   the Cartesian product of the type lists, in       *)
(*                          order (first list slowest);                      *)
(*   use_definitions<D, product<types<M>, L1..Ln>>                           *)
(*                          one definition of method M per combination whose   *)
(*                          instantiation of D is not marked not_defined,      *)
(*                          none for the others;                              *)
(*   aggregate<T...>        holds every T exactly once, flat up to 512         *)
(*                          elements, split in halves (recursively) above.     *)
(* Classes are numbers; a combination is a sequence of classes.  TLC checks   *)
(* the algebra of these definitions on a bounded family of programs and       *)
(* prints each member as a stimulus for the program generator (gen/).         *)
(***************************************************************************)
EXTENDS Dispatch, TLC, Json, SequencesExt, FiniteSetsExt

RECURSIVE ProductSeq(_)
ProductSeq(lists) ==
    IF lists = <<>> THEN << <<>> >>
    ELSE LET rest == ProductSeq(Tail(lists))
             RECURSIVE Outer(_)
             Outer(i) == IF i > Len(Head(lists)) THEN <<>>
                         ELSE [k \in 1..Len(rest) |-> <<Head(lists)[i]>> \o rest[k]] \o Outer(i + 1)
         IN Outer(1)
SeqToSetT(s) == {s[i] : i \in DOMAIN s}
Registered(lists, undefined) == SeqToSetT(ProductSeq(lists)) \ undefined
IndexIn(seq, x) == CHOOSE i \in DOMAIN seq : seq[i] = x

(* the definitions registered, as records for the dispatch oracle: d = position in the product (0-based) *)
DefRecsT(lists, undefined) ==
    LET P == ProductSeq(lists) IN {[d |-> IndexIn(P, c) - 1, vp |-> c] : c \in Registered(lists, undefined)}
(* flat hierarchy: every class derives from the root class 0 only *)
FlatAnc(K) == [c \in 0..K |-> IF c = 0 THEN {0} ELSE {c, 0}]

(* aggregate: the leaves of the tree built by halving above the limit, in order *)
RECURSIVE Leaves(_, _)
Leaves(seq, limit) ==
    IF Len(seq) <= limit THEN seq
    ELSE LET h == Len(seq) \div 2 IN Leaves(SubSeq(seq, 1, h), limit) \o Leaves(SubSeq(seq, h + 1, Len(seq)), limit)

-----------------------------------------------------------------------------
CONSTANTS K,        \* classes 1..K
          MaxLists, MaxLen, MaxUndef, EMIT
VARIABLES lists, undef
tvars == <<lists, undef>>
ListChoices == UNION {{s \in [1..n -> 1..K] : \A i, j \in 1..n : i # j => s[i] # s[j]} : n \in 1..MaxLen}
KSu(j, S) == IF j > Cardinality(S) THEN {} ELSE kSubset(j, S)
TInitM ==
    /\ lists \in UNION {[1..n -> ListChoices] : n \in 1..MaxLists}
    /\ undef \in UNION {KSu(j, SeqToSetT(ProductSeq(lists))) : j \in 0..MaxUndef}
TSpecM == TInitM /\ [][UNCHANGED tvars]_tvars

RECURSIVE ProdLen(_)
ProdLen(ls) == IF ls = <<>> THEN 1 ELSE Len(Head(ls)) * ProdLen(Tail(ls))
Algebra ==
    LET P == ProductSeq(lists) IN
    /\ Len(P) = ProdLen(lists)
    /\ \A i, j \in DOMAIN P : i # j => P[i] # P[j]                         \* lists have distinct elements
    /\ Cardinality(Registered(lists, undef)) = Len(P) - Cardinality(undef)
    /\ \A lim \in 1..3 : Leaves(P, lim) = P                                  \* splitting never loses or reorders
    \* first list slowest
    /\ \A i \in DOMAIN P : \A j \in DOMAIN P : i < j => \E k \in DOMAIN lists :
           /\ \A m \in 1..(k - 1) : P[i][m] = P[j][m]
           /\ IndexIn(lists[k], P[i][k]) < IndexIn(lists[k], P[j][k])
EmitT == IF EMIT THEN PrintT(ToJson([lists |-> lists, undef |-> undef])) ELSE TRUE
=============================================================================
