SPECIFICATION MCSpec
CONSTANTS Policy = {0}
 MaxLen = 14
 NC = 5
 NM = 2
 ND = 6
 EMIT = TRUE
CONSTRAINT Bound
INVARIANTS TypeOK PathIndependent Emit
PROPERTY IsolationProp
CHECK_DEADLOCK FALSE
