--------------------------- MODULE DispatchProofs ---------------------------
(***************************************************************************)
(* Unbounded facts about the oracle of Dispatch.tla, checked by the TLA+    *)
(* proof system (tlapm): they hold for every ancestor relation, every        *)
(* arity and every pair of definitions, not only within TLC's bounds.       *)
(* An extra: no check depends on this module (see DESIGN.md section 12).   *)
(***************************************************************************)
EXTENDS Integers, Sequences, FiniteSets, TLAPS

ProperBase(anc, x, y) == x # y /\ x \in anc[y]
MoreSpecific(anc, a, b) ==
    /\ \A i \in DOMAIN a.vp : ~ProperBase(anc, a.vp[i], b.vp[i])
    /\ \E i \in DOMAIN a.vp :  ProperBase(anc, b.vp[i], a.vp[i])
Winners(anc, A) == {x \in A : \A y \in A \ {x} : MoreSpecific(anc, x, y)}

THEOREM Irreflexive == \A anc, a : ~MoreSpecific(anc, a, a)
  BY DEF MoreSpecific, ProperBase

THEOREM Asymmetric ==
    \A anc, a, b : DOMAIN a.vp = DOMAIN b.vp /\ MoreSpecific(anc, a, b) => ~MoreSpecific(anc, b, a)
  BY DEF MoreSpecific

(* hence at most one definition is more specific than every other: the winner is unique *)
THEOREM AtMostOneWinner ==
    \A anc, A : (\A x, y \in A : DOMAIN x.vp = DOMAIN y.vp) =>
        \A x, y \in Winners(anc, A) : x = y
<1> SUFFICES ASSUME NEW anc, NEW A, \A x, y \in A : DOMAIN x.vp = DOMAIN y.vp,
                    NEW x \in Winners(anc, A), NEW y \in Winners(anc, A), x # y
             PROVE FALSE
    OBVIOUS
<1>1. x \in A /\ y \in A BY DEF Winners
<1>2. MoreSpecific(anc, x, y) BY <1>1 DEF Winners
<1>3. MoreSpecific(anc, y, x) BY <1>1 DEF Winners
<1> QED BY <1>1, <1>2, <1>3, Asymmetric

(* a winner is not dominated by anybody *)
THEOREM WinnerNotDominated ==
    \A anc, A : (\A x, y \in A : DOMAIN x.vp = DOMAIN y.vp) =>
        \A x \in Winners(anc, A) : \A y \in A \ {x} : ~MoreSpecific(anc, y, x)
<1> SUFFICES ASSUME NEW anc, NEW A, \A x, y \in A : DOMAIN x.vp = DOMAIN y.vp,
                    NEW x \in Winners(anc, A), NEW y \in A \ {x}
             PROVE ~MoreSpecific(anc, y, x)
    OBVIOUS
<1>1. x \in A /\ MoreSpecific(anc, x, y) BY DEF Winners
<1> QED BY <1>1, Asymmetric

(* ---- next ---- *)
IsApplicable(anc, x, t) == \A i \in DOMAIN t : x.vp[i] \in anc[t[i]]
StrictlyMoreGeneral(anc, e, x) ==
    /\ \A i \in DOMAIN x.vp : e.vp[i] \in anc[x.vp[i]]
    /\ \E i \in DOMAIN x.vp : e.vp[i] # x.vp[i]
Transitive(anc) == \A a, b, c : (a \in anc[b] /\ b \in anc[c]) => a \in anc[c]
Antisymmetric(anc) == \A a, b : (a \in anc[b] /\ b \in anc[a]) => a = b

(* a definition is never its own next candidate *)
THEOREM NextExcludesSelf == \A anc, x : ~StrictlyMoreGeneral(anc, x, x)
  BY DEF StrictlyMoreGeneral

(* whatever a definition applies to, its next candidates apply to: calling next is always type-correct *)
THEOREM NextCandidatesApplicable ==
    \A anc, e, x, t : (Transitive(anc) /\ DOMAIN t = DOMAIN x.vp
                        /\ StrictlyMoreGeneral(anc, e, x) /\ IsApplicable(anc, x, t)) => IsApplicable(anc, e, t)
  BY DEF Transitive, StrictlyMoreGeneral, IsApplicable

(* ... and the definition is more specific than each of them: next moves strictly up *)
THEOREM NextCandidatesLessSpecific ==
    \A anc, e, x : (Antisymmetric(anc) /\ DOMAIN e.vp = DOMAIN x.vp /\ StrictlyMoreGeneral(anc, e, x)) => MoreSpecific(anc, x, e)
<1> SUFFICES ASSUME NEW anc, NEW e, NEW x, Antisymmetric(anc), DOMAIN e.vp = DOMAIN x.vp, StrictlyMoreGeneral(anc, e, x)
             PROVE MoreSpecific(anc, x, e)
    OBVIOUS
<1>1. \A i \in DOMAIN x.vp : ~ProperBase(anc, x.vp[i], e.vp[i])
    BY DEF StrictlyMoreGeneral, ProperBase, Antisymmetric
<1>2. \E i \in DOMAIN x.vp : ProperBase(anc, e.vp[i], x.vp[i])
    BY DEF StrictlyMoreGeneral, ProperBase
<1> QED BY <1>1, <1>2 DEF MoreSpecific
=============================================================================

