--------------------------- MODULE DispatchProofs ---------------------------
(***************************************************************************)
(* Unbounded facts about the oracle of Dispatch.tla, checked by the TLA+    *)
(* proof system (tlapm): they hold for every ancestor relation, every        *)
(* arity and every pair of definitions, not only within TLC's bounds.       *)
(* An extra: no check depends on this module (see DESIGN.md section 12).   *)
(***************************************************************************)
EXTENDS Integers, Sequences, FiniteSets, TLAPS

ProperBase(anc, x, y) == x # y /\ x \in anc[y]
MoreSpecific(anc, a, b) ==
    /\ \A i \in DOMAIN a.vp : ~ProperBase(anc, a.vp[i], b.vp[i])
    /\ \E i \in DOMAIN a.vp :  ProperBase(anc, b.vp[i], a.vp[i])
Winners(anc, A) == {x \in A : \A y \in A \ {x} : MoreSpecific(anc, x, y)}

THEOREM Irreflexive == \A anc, a : ~MoreSpecific(anc, a, a)
  BY DEF MoreSpecific, ProperBase

THEOREM Asymmetric ==
    \A anc, a, b : DOMAIN a.vp = DOMAIN b.vp /\ MoreSpecific(anc, a, b) => ~MoreSpecific(anc, b, a)
  BY DEF MoreSpecific

(* hence at most one definition is more specific than every other: the winner is unique *)
THEOREM AtMostOneWinner ==
    \A anc, A : (\A x, y \in A : DOMAIN x.vp = DOMAIN y.vp) =>
        \A x, y \in Winners(anc, A) : x = y
<1> SUFFICES ASSUME NEW anc, NEW A, \A x, y \in A : DOMAIN x.vp = DOMAIN y.vp,
                    NEW x \in Winners(anc, A), NEW y \in Winners(anc, A), x # y
             PROVE FALSE
    OBVIOUS
<1>1. x \in A /\ y \in A BY DEF Winners
<1>2. MoreSpecific(anc, x, y) BY <1>1 DEF Winners
<1>3. MoreSpecific(anc, y, x) BY <1>1 DEF Winners
<1> QED BY <1>1, <1>2, <1>3, Asymmetric
=============================================================================
