SPECIFICATION TSpec
CONSTANTS Idents <- Idents3
 Depth = 1
 MaxNames = 0
 Broken = FALSE
 EMIT = FALSE
POSTCONDITION Accepted
CHECK_DEADLOCK FALSE
