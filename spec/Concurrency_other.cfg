SPECIFICATION CSpec
CONSTANTS Callers = {1, 2, 3}
 Upd = "B"
 Rounds = 2
INVARIANTS NoRace SequentialAnswer
CHECK_DEADLOCK FALSE
