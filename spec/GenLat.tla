------------------------------ MODULE GenLat ------------------------------
(***************************************************************************)
(* R binding for C04 / C08: TLC enumerates inheritance lattices, the        *)
(* classes that carry a one-parameter method, and the way the lattice is    *)
(* presented to the library (per class, the listed bases: any set between   *)
(* the direct bases and all bases, with or without the class itself).       *)
(* Theorem checked on every one: the closure of the listed relation is the  *)
(* real ancestor relation (so the spec's AncFn infers the right lattice     *)
(* from any legal presentation).                                           *)
(***************************************************************************)
EXTENDS Integers, Sequences, FiniteSets, TLC, Json, FiniteSetsExt, SequencesExt

CONSTANTS N,          \* classes 1..N
          MAXM,       \* at most MAXM classes carry a method
          MODE,       \* "complete" | "direct" | "any"
          EMIT
Class == 1..N
PossibleEdges == {e \in Class \X Class : e[1] > e[2]}

VARIABLES edges, mset, listed
lvars == <<edges, mset, listed>>

RECURSIVE AncOf(_, _)
AncOf(E, c) == {c} \cup UNION {AncOf(E, e[2]) : e \in {x \in E : x[1] = c}}
Direct(E, c) == {e[2] : e \in {x \in E : x[1] = c}}
Reduced(E) == \A c \in Class : \A j, k \in Direct(E, c) : k # j => j \notin AncOf(E, k)

Listings(E, c) ==
    IF MODE = "complete" THEN {AncOf(E, c) \ {c}}
    ELSE IF MODE = "direct" THEN {Direct(E, c)}
    ELSE {S \in SUBSET AncOf(E, c) : Direct(E, c) \subseteq S}

RECURSIVE Prod(_, _)
Prod(E, c) == IF c = 0 THEN {<<>>} ELSE {Append(f, S) : f \in Prod(E, c - 1), S \in Listings(E, c)}

Init ==
    /\ edges \in {E \in SUBSET PossibleEdges : Reduced(E)}
    /\ mset \in (IF MAXM = 0 THEN {{}} ELSE {S \in SUBSET Class : S # {} /\ Cardinality(S) <= MAXM})
    /\ listed \in Prod(edges, N)
Next == UNCHANGED lvars
Spec == Init /\ [][Next]_lvars

RECURSIVE Up(_, _)
Up(L, S) == LET S2 == S \cup UNION {L[x] : x \in S} IN IF S2 = S THEN S ELSE Up(L, S2)
PresentationInvariant == \A c \in Class : Up(listed, {c}) = AncOf(edges, c)

Emit ==
    IF EMIT THEN PrintT(ToJson([edges |-> edges, mset |-> mset, listed |-> [c \in Class |-> listed[c]]])) ELSE TRUE
=============================================================================
