SPECIFICATION Spec
CONSTANTS N = 6
 MAXM = 4
 MODE = "complete"
 EMIT = TRUE
INVARIANTS PresentationInvariant Emit
CHECK_DEADLOCK FALSE
