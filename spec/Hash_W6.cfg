SPECIFICATION HSpec
CONSTANTS W = 6
 Universe = {1, 2, 9, 32, 33, 62}
 MaxIds = 3
 Budget = 2
 MaxUpdates = 2
INVARIANTS ContractHolds FailsOnlyWhenExhausted MFits
CHECK_DEADLOCK FALSE
