SPECIFICATION PSpec
CONSTANTS Callers = {1, 2, 3}
 CallerPol = "A"
 Upd = "B"
 Rounds = 1
 SharedKinds = {}
 CallerWrites = {}
INVARIANTS NoRace SequentialAnswer CallersCellsFrozen
CHECK_DEADLOCK FALSE
