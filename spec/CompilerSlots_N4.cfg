SPECIFICATION Spec
CONSTANTS N = 4
 Closed = TRUE
INVARIANT CellsDisjoint
CHECK_DEADLOCK FALSE
