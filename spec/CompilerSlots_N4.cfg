SPECIFICATION Spec
CONSTANTS N = 4
 MaxMult = 2
 Closed = TRUE
INVARIANT CellsDisjoint
CHECK_DEADLOCK FALSE
