SPECIFICATION Spec
CONSTANTS Node = {1, 2, 3}
 MaxLen = 6
 EMIT = TRUE
CONSTRAINT Bound
INVARIANTS Refines LastOK Detached SizeOK EmitH
CHECK_DEADLOCK FALSE
