SPECIFICATION Spec
CONSTANTS N = 6
 MAXM = 4
 MODE = "direct"
 EMIT = TRUE
INVARIANTS PresentationInvariant Emit
CHECK_DEADLOCK FALSE
