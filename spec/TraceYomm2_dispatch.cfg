SPECIFICATION TSpec
CONSTANT Policy = {0, 1, 2}
CONSTANT Aspects = {"recv"}
POSTCONDITION Accepted
CHECK_DEADLOCK FALSE
