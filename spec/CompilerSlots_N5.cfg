SPECIFICATION Spec
CONSTANTS N = 5
 Closed = TRUE
INVARIANT CellsDisjoint
CHECK_DEADLOCK FALSE
