SPECIFICATION Spec
CONSTANTS N = 5
 MaxMult = 2
 Closed = TRUE
INVARIANT CellsDisjoint
CHECK_DEADLOCK FALSE
