SPECIFICATION SpecD2
CONSTANTS N = 5
 AR = 2
 MAXD = 3
 FixedBest = TRUE
INVARIANT WalkIsOracle
CHECK_DEADLOCK FALSE
