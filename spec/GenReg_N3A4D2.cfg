SPECIFICATION Spec
CONSTANTS N = 3
 AR = 4
 MAXD = 2
 EMIT = TRUE
INVARIANTS OracleTheorems Emit
CHECK_DEADLOCK FALSE
