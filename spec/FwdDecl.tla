------------------------------ MODULE FwdDecl ------------------------------
(***************************************************************************)
(* C19.  Declarative part: what well-formed forward declarations are.  The  *)
(* text the generator writes is read as a token sequence                    *)
(*     <<"o", ns>>  namespace ns {      <<"c">>  }      <<"d", id>>  class id;  *)
(* An acceptor with a stack of open namespaces computes the qualified names  *)
(* declared; the output is correct iff the braces balance, nothing else      *)
(* appears, and the declared names are exactly the requested ones, each once. *)
(*                                                                         *)
(* Mechanism part: a character-level transcription of                       *)
(* generator::write_forward_declarations (the bookkeeping of the prefix       *)
(* shared with the previous name in the sorted set).  TLC checks, for every   *)
(* set of names of a bounded universe -- identifiers that are string          *)
(* prefixes of one another at several namespace depths -- that what the       *)
(* transcription writes is accepted.                                        *)
(***************************************************************************)
EXTENDS Integers, Sequences, FiniteSets, TLC, SequencesExt, FiniteSetsExt, Json

(* a qualified name is a sequence of identifiers <<"a", "ab", "X">> = a::ab::X *)
RECURSIVE Accept(_, _, _, _)
\* returns [ok, declared (sequence of qualified names, in order)]
Accept(toks, i, stack, declared) ==
    IF i > Len(toks) THEN [ok |-> stack = <<>>, declared |-> declared]
    ELSE LET t == toks[i] IN
         IF t[1] = "o" THEN Accept(toks, i + 1, Append(stack, t[2]), declared)
         ELSE IF t[1] = "c" THEN
              IF stack = <<>> THEN [ok |-> FALSE, declared |-> declared]
              ELSE Accept(toks, i + 1, SubSeq(stack, 1, Len(stack) - 1), declared)
         ELSE IF t[1] = "d" THEN Accept(toks, i + 1, stack, Append(declared, Append(stack, t[2])))
         ELSE [ok |-> FALSE, declared |-> declared]          \* anything else is garbage
WellFormed(toks, requested) ==
    LET r == Accept(toks, 1, <<>>, <<>>) IN
    /\ r.ok
    /\ {r.declared[i] : i \in DOMAIN r.declared} = requested
    /\ Len(r.declared) = Cardinality(requested)               \* each exactly once

-----------------------------------------------------------------------------
(* ---- mechanism: the writer, at the level of characters ---- *)
CONSTANTS Idents,      \* identifiers, as sequences of one-character strings, e.g. <<"a","b">>
          Depth,       \* maximal number of identifiers in a qualified name
          MaxNames,
          Broken,      \* negative control: TRUE drops the last closing brace the writer would emit
          EMIT

(* the characters of a qualified name: identifiers joined by "::" *)
RECURSIVE Chars(_)
Chars(q) == IF Len(q) = 1 THEN q[1] ELSE q[1] \o <<":", ":">> \o Chars(Tail(q))
(* std::string order: ':' sorts before the letters *)
Rank(c) == IF c = ":" THEN 0 ELSE IF c = "a" THEN 1 ELSE IF c = "b" THEN 2 ELSE IF c = "c" THEN 3 ELSE 4
RECURSIVE Less(_, _)
Less(s, t) == IF s = <<>> THEN t # <<>>
              ELSE IF t = <<>> THEN FALSE
              ELSE IF Rank(s[1]) # Rank(t[1]) THEN Rank(s[1]) < Rank(t[1])
              ELSE Less(Tail(s), Tail(t))
Sorted(S) == SortSeq(SetToSeq(S), Less)        \* S: set of character sequences

Find(s, from) == IF \E k \in from..Len(s) : s[k] = ":" THEN CHOOSE k \in from..Len(s) : s[k] = ":" /\ \A j \in from..(k - 1) : s[j] # ":" ELSE 0
(* emit "}" for every "::" in prev[pi .. plast-1] *)
RECURSIVE Closes(_, _, _)
Closes(prev, pi, plast) ==
    IF pi >= plast THEN <<>>
    ELSE IF prev[pi] = ":" THEN <<<<"c">>>> \o Closes(prev, pi + 2, plast) ELSE Closes(prev, pi + 1, plast)
(* the namespace / class part: from position ni of name *)
RECURSIVE Opens(_, _)
\* returns [toks, plast]
Opens(name, ni) ==
    LET sc == Find(name, ni) IN
    IF sc = 0 THEN [toks |-> <<<<"d", SubSeq(name, ni, Len(name))>>>>, plast |-> ni]
    ELSE LET rest == Opens(name, sc + 2) IN
         [toks |-> <<<<"o", SubSeq(name, ni, sc - 1)>>>> \o rest.toks, plast |-> rest.plast]
(* compare prev and name from the start while inside [pi, plast) *)
RECURSIVE Common(_, _, _, _, _)
\* returns [toks, ni]
Common(prev, name, pi, plast, ni) ==
    IF pi = plast THEN [toks |-> <<>>, ni |-> ni]
    ELSE IF ni > Len(name) \/ prev[pi] # name[ni]
         THEN LET RECURSIVE Back(_)
                  Back(k) == IF k # 1 /\ name[k - 1] # ":" THEN Back(k - 1) ELSE k
              IN [toks |-> Closes(prev, pi, plast), ni |-> Back(ni)]
         ELSE Common(prev, name, pi + 1, plast, ni + 1)
RECURSIVE WriteAll(_, _, _, _)
WriteAll(names, k, prev, plast) ==
    IF k > Len(names) THEN (LET cl == Closes(prev, 1, plast) IN IF Broken /\ cl # <<>> THEN Tail(cl) ELSE cl)
    ELSE LET name == names[k]
             c == Common(prev, name, 1, plast, 1)
             o == Opens(name, c.ni)
             pl == IF o.plast > c.ni THEN o.plast ELSE c.ni
         IN  c.toks \o o.toks \o WriteAll(names, k + 1, name, pl)
Write(S) == WriteAll(Sorted(S), 1, <<>>, 1)

(* identifier universes for the configurations (a configuration file cannot contain tuples) *)
Idents3 == {<<"a">>, <<"a", "b">>, <<"b">>}
Idents5 == {<<"a">>, <<"a", "b">>, <<"a", "b", "c">>, <<"b">>, <<"b", "a">>}

(* identifiers in tokens are character sequences; turn requested names into the same form *)
QNames == UNION {[1..d -> Idents] : d \in 1..Depth}
VARIABLE req
(* all subsets of S with at most k elements (kSubset of the CommunityModules is limited to 62 elements) *)
RECURSIVE UpTo(_, _)
UpTo(S, k) == IF k = 0 THEN {{}} ELSE LET R == UpTo(S, k - 1) IN R \cup {T \cup {x} : T \in R, x \in S}
FInit == req \in UpTo(QNames, MaxNames)
FSpec == FInit /\ [][UNCHANGED req]_req
WriterIsWellFormed == WellFormed(Write({Chars(q) : q \in req}), req)
(* R binding: every name set of the universe as a stimulus for the real writer *)
RECURSIVE Join(_)
Join(q) == IF Len(q) = 1 THEN q[1] ELSE q[1] \o <<":", ":">> \o Join(Tail(q))
EmitReq == IF EMIT THEN PrintT(ToJson([names |-> {Chars(q) : q \in req}])) ELSE TRUE
=============================================================================
