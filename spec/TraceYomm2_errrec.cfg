SPECIFICATION TSpec
CONSTANT Policy = {0, 1, 2}
CONSTANT Aspects = {"errrec"}
POSTCONDITION Accepted
CHECK_DEADLOCK FALSE
