SPECIFICATION Spec
CONSTANTS N = 5
 MAXM = 3
 MODE = "complete"
 EMIT = TRUE
INVARIANTS PresentationInvariant Emit
CHECK_DEADLOCK FALSE
