------------------------------- MODULE Decode -------------------------------
(***************************************************************************)
(* C13, mechanism layer: the layout of the emitted dispatch data            *)
(* (generator::encode_dispatch_data: headroom / slots / encoded v-tables      *)
(* overlaid, in a union, by the decoded v-tables) and the in-place decoder    *)
(* (decode_dispatch_data) as a two-cursor machine: `enc` reads 16-bit words,  *)
(* `dec` writes 64-bit cells over the same storage.  Abstracted to byte        *)
(* offsets; a class is its first slot (0 or 1) and the sequence of its         *)
(* v-table entries, each encoded on one word (index entry) or two words        *)
(* (method + definition / group).  Safety: the decoder never reads a word it   *)
(* has already overwritten, never reads or writes outside the arrays as        *)
(* declared, and stays synchronised with the class boundaries.                *)
(* Variant = "fixed" is the code; Variant = "asis" is the code before the       *)
(* repairs of D7 (double subtraction of the first slot, unsigned headroom,      *)
(* do-while on a class without entries) and must exhibit the failures.        *)
(***************************************************************************)
\* prototype: in-place v-table decoding (generator.hpp sizes + decode.hpp cursors), abstracted to word/cell counts
EXTENDS Integers, Sequences, FiniteSets, TLC
CONSTANTS MaxClasses, MaxEntries, MaxSlotsWords, Variant   \* Variant: "asis" | "fixed"
\* a class = [first : 0..1, ents : Seq({1,2})]  entry kind = number of encoded words (1: index entry, 2: method+spec)
EntSeqs == UNION {[1..n -> {1, 2}] : n \in 0..MaxEntries}
Classes == [first : 0..1, ents : EntSeqs]
VARIABLES cls, S, pc, ci, ei, enc, dec, wrote, readmax, bad
vars == <<cls, S, pc, ci, ei, enc, dec, wrote, readmax, bad>>
Sum(f, n) == LET RECURSIVE R(_) R(i) == IF i = 0 THEN 0 ELSE f[i] + R(i - 1) IN R(n)
NC == Len(cls)
EncWords == Sum([i \in 1..NC |-> 1 + Sum(cls[i].ents, Len(cls[i].ents))], NC)      \* encode_vtbl_size
DecCellsNeeded == Sum([i \in 1..NC |-> Len(cls[i].ents)], NC)                       \* cells the decoder will write
\* vtbl.size() in the compiler = used_slots.size() - first_slot = number of entries here (dense v-table from first slot)
DecCellsDeclared == IF Variant = "asis" THEN Sum([i \in 1..NC |-> Len(cls[i].ents) - cls[i].first], NC)
                    ELSE DecCellsNeeded
\* headroom in 16-bit words; bytes: cell = 8, word = 2
HeadroomRaw == IF Variant = "asis" THEN (DecCellsDeclared * 8 - (EncWords - S) * 2) \div 2
               ELSE (DecCellsDeclared * 8 + 2 * NC - (EncWords + S) * 2) \div 2
Headroom == IF Variant = "asis" THEN HeadroomRaw ELSE IF HeadroomRaw < 0 THEN 0 ELSE HeadroomRaw
\* byte offsets inside the union
EncStart == (Headroom + S) * 2
EncEnd == EncStart + EncWords * 2
DecEnd == DecCellsDeclared * 8
Init == /\ cls \in UNION {[1..n -> Classes] : n \in 1..MaxClasses}
        /\ S \in 1..MaxSlotsWords
        /\ pc = "start" /\ ci = 1 /\ ei = 0 /\ enc = 0 /\ dec = 0 /\ wrote = 0 /\ readmax = 0 /\ bad = "none"
\* one step = decode one class header or one entry, as decode.hpp does (do-while: at least one entry per class in "asis")
Start == /\ pc = "start"
         /\ IF Headroom < 0 THEN bad' = "negative array size" /\ pc' = "done" /\ UNCHANGED <<enc, dec>>
            ELSE bad' = bad /\ pc' = "header" /\ enc' = EncStart /\ dec' = 0
         /\ UNCHANGED <<cls, S, ci, ei, wrote, readmax>>
Header == /\ pc = "header"
          /\ IF ci > NC THEN pc' = "done" /\ UNCHANGED <<enc, ei, bad>>
             ELSE /\ enc' = enc + 2
                  /\ bad' = IF enc < wrote THEN "read overwritten word" ELSE IF enc + 2 > EncEnd THEN "read past encoded" ELSE bad
                  /\ ei' = 1
                  /\ pc' = IF Variant = "fixed" /\ Len(cls[ci].ents) = 0 THEN "nextclass" ELSE "entry"
          /\ UNCHANGED <<cls, S, ci, dec, wrote, readmax>>
NextClass == /\ pc = "nextclass" /\ ci' = ci + 1 /\ pc' = "header" /\ UNCHANGED <<cls, S, ei, enc, dec, wrote, readmax, bad>>
Entry == /\ pc = "entry"
         /\ IF ei > Len(cls[ci].ents)
              THEN \* "asis" with an empty class: the do-while consumes words belonging to the next class
                   /\ bad' = "desynchronised (class without entries)" /\ pc' = "done" /\ UNCHANGED <<enc, dec, wrote, ei, ci>>
              ELSE LET w == cls[ci].ents[ei] IN
                   /\ enc' = enc + 2 * w
                   /\ dec' = dec + 8
                   /\ wrote' = dec + 8
                   /\ bad' = IF enc < wrote THEN "read overwritten word"
                             ELSE IF enc + 2 * w > EncEnd THEN "read past encoded"
                             ELSE IF dec + 8 > DecEnd THEN "store past decoded array"
                             ELSE IF dec + 8 > enc + 2 * w /\ enc + 2 * w < EncEnd THEN "store overwrites unread input"
                             ELSE bad
                   /\ IF ei = Len(cls[ci].ents) THEN ci' = ci + 1 /\ pc' = "header" /\ ei' = 0 ELSE ei' = ei + 1 /\ pc' = "entry" /\ ci' = ci
         /\ UNCHANGED <<cls, S, readmax>>
Next == Start \/ Header \/ NextClass \/ Entry
Spec == Init /\ [][Next]_vars
Safe == bad = "none"
=============================================================================
