SPECIFICATION Spec
CONSTANTS N = 4
 MAXM = 0
 MODE = "any"
 EMIT = TRUE
INVARIANTS PresentationInvariant Emit
CHECK_DEADLOCK FALSE
