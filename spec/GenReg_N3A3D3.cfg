SPECIFICATION Spec
CONSTANTS N = 3
 AR = 3
 MAXD = 3
 EMIT = TRUE
INVARIANTS OracleTheorems Emit
CHECK_DEADLOCK FALSE
