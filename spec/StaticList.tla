----------------------------- MODULE StaticList -----------------------------
(***************************************************************************)
(* Mechanism + declarative layer for the intrusive registration catalogs    *)
(* (detail/static_list.hpp, C18).  first / prev / next are a line-by-line    *)
(* transcription of push_back, remove (the first / last / only / middle      *)
(* case analysis) and clear; seq is what the catalog must be: the live       *)
(* registrations, each once, in registration order.  TLC checks the          *)
(* refinement (walking next from first yields seq), the shape of the links,  *)
(* and prints every operation sequence up to MaxLen as a script.            *)
(***************************************************************************)
EXTENDS Integers, Sequences, FiniteSets, TLC, Json
CONSTANTS Node, MaxLen, EMIT
Null == 0
VARIABLES first, prev, next, seq, hist
vars == <<first, prev, next, seq, hist>>
InList(n) == \E i \in 1..Len(seq) : seq[i] = n
Init == first = Null /\ prev = [n \in Node |-> Null] /\ next = [n \in Node |-> Null] /\ seq = <<>> /\ hist = <<>>
Last == prev[first]
PushBack(n) ==
  /\ ~InList(n)
  /\ IF first = Null
       THEN first' = n /\ prev' = [prev EXCEPT ![n] = n] /\ UNCHANGED next
       ELSE /\ next' = [next EXCEPT ![Last] = n]
            /\ prev' = [prev EXCEPT ![n] = Last, ![first] = n]
            /\ UNCHANGED first
  /\ seq' = Append(seq, n)
  /\ hist' = Append(hist, [op |-> "push", n |-> n])
Remove(n) ==
  /\ InList(n)
  /\ LET p == prev[n] nx == next[n] l == Last IN
     IF n = l THEN
        IF n = first THEN first' = Null /\ prev' = [prev EXCEPT ![n] = Null] /\ next' = [next EXCEPT ![n] = Null]
        ELSE /\ UNCHANGED first
             /\ prev' = [prev EXCEPT ![n] = Null, ![first] = p]
             /\ next' = [next EXCEPT ![n] = Null, ![p] = Null]
     ELSE IF n = first THEN
             /\ first' = nx
             /\ prev' = [prev EXCEPT ![n] = Null, ![nx] = l]
             /\ next' = [next EXCEPT ![n] = Null]
          ELSE /\ UNCHANGED first
               /\ prev' = [prev EXCEPT ![n] = Null, ![nx] = p]
               /\ next' = [next EXCEPT ![n] = Null, ![p] = nx]
  /\ seq' = SelectSeq(seq, LAMBDA x : x # n)
  /\ hist' = Append(hist, [op |-> "remove", n |-> n])
Clear ==
  /\ first' = Null /\ prev' = [n \in Node |-> IF InList(n) THEN Null ELSE prev[n]] /\ next' = [n \in Node |-> IF InList(n) THEN Null ELSE next[n]]
  /\ seq' = <<>>
  /\ hist' = Append(hist, [op |-> "clear", n |-> 0])
Next == \/ \E n \in Node : PushBack(n) \/ Remove(n)
        \/ Clear
Spec == Init /\ [][Next]_vars
RECURSIVE Walk(_, _)
Walk(n, k) == IF n = Null \/ k = 0 THEN <<>> ELSE <<n>> \o Walk(next[n], k - 1)
Refines == Walk(first, Cardinality(Node) + 1) = seq
LastOK == first # Null => (prev[first] = seq[Len(seq)] /\ next[seq[Len(seq)]] = Null)
Detached == \A n \in Node : ~InList(n) => prev[n] = Null /\ next[n] = Null
Bound == Len(hist) <= MaxLen
NoHistView == <<first, prev, next, seq>>   \* VIEW for the unbounded configuration: hist is an observation variable
EmitH == IF EMIT /\ Len(hist) = MaxLen THEN PrintT(ToJson(hist)) ELSE TRUE
SizeOK == Len(seq) = Cardinality({seq[i] : i \in DOMAIN seq})   \* each node at most once
=============================================================================
