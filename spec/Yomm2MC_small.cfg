SPECIFICATION MCSpec
CONSTANTS Policy = {0}
 MaxLen = 5
 NC = 3
 NM = 1
 ND = 2
 EMIT = TRUE
CONSTRAINT Bound
INVARIANTS TypeOK PathIndependent Emit
PROPERTY IsolationProp
CHECK_DEADLOCK FALSE
