------------------------- MODULE ConcurrencyPaths -------------------------
(***************************************************************************)
(* C16, mechanism layer, second model.  Concurrency.tla has one call path   *)
(* and cells that are keyed by the policy by construction.  This module       *)
(* makes the keying itself a parameter and follows the code more closely:     *)
(*                                                                         *)
(*  - kinds of storage a policy owns: the registration catalogs ("cat"),      *)
(*    the hash parameters ("hashpar"), the control table of the checked       *)
(*    hash ("ctrl"), the v-table pointer vector or map ("vec"), the           *)
(*    per-class static v-table pointer cells ("svp"), a method's              *)
(*    slots / strides ("slots"), the v-tables ("vtbl"), the dispatch           *)
(*    tables ("disp"), the error handler ("handler");                         *)
(*  - six kinds of caller operation, each a fixed sequence of plain reads     *)
(*    (core.hpp: method::vptr / resolve_uni / resolve_multi_first / _next,    *)
(*    virtual_ptr's constructors, the error path of method::resolve);         *)
(*  - three kinds of updater operation, each a sequence of plain writes        *)
(*    (registration objects: catalogs; update: everything update installs,    *)
(*    in the order compiler::update / install_gv / publish_vptrs write it;     *)
(*    set_error_handler: the handler);                                        *)
(*  - CONSTANT SharedKinds: the kinds whose storage is NOT keyed by the        *)
(*    policy (one cell for every policy).  The library is SharedKinds = {}:   *)
(*    every static of a policy lives in a template keyed by the policy class.  *)
(*    Each non-empty value is a way of breaking C16 / C14 that compiles and    *)
(*    passes the tests (a cache or a handler hoisted into a non-template       *)
(*    base, storage keyed by the facet's container type, ...): TLC must        *)
(*    exhibit the race for every one of them (negative controls), which is     *)
(*    what makes the footprint conformance check meaningful: the harness       *)
(*    logs the address ranges of every kind for every policy and the trace     *)
(*    specification accepts the event only if ranges of different policies      *)
(*    are disjoint, i.e. only if the real keying is SharedKinds = {}.          *)
(*  - CONSTANT CallerWrites: kinds a caller operation writes at its end        *)
(*    (a cache filled on the call path).  The library is {}: with any other     *)
(*    value two callers of the same policy race with each other, no updater     *)
(*    needed (negative control).                                              *)
(***************************************************************************)
EXTENDS Integers, Sequences, FiniteSets, TLC

CONSTANTS Callers,       \* caller threads
          CallerPol,     \* the policy the callers use
          Upd,           \* policy the updater thread works on
          Rounds,        \* updater operations performed
          SharedKinds,   \* kinds with one cell for all policies
          CallerWrites   \* kinds written by a caller operation when it finishes

Policies == {"A", "B"}
Kinds == {"cat", "hashpar", "ctrl", "vec", "svp", "slots", "vtbl", "disp", "handler", "cache"}

\* what each caller operation reads, in program order
ReadPath(op) ==
    CASE op = "uni"     -> <<"hashpar", "vec", "slots", "vtbl">>                          \* m(virtual_<T&>)
      [] op = "multi"   -> <<"hashpar", "vec", "slots", "vtbl", "hashpar", "vec", "slots", "vtbl", "disp">>
      [] op = "checked" -> <<"hashpar", "ctrl", "vec", "slots", "vtbl">>                  \* checked_perfect_hash
      [] op = "make"    -> <<"hashpar", "vec">>                                            \* virtual_ptr from a reference
      [] op = "final"   -> <<"svp">>                                                       \* final_virtual_ptr / static shortcut
      [] op = "vcall"   -> <<"svp", "slots", "vtbl", "disp">>                              \* call through an indirect handle
      [] op = "err"     -> <<"hashpar", "vec", "slots", "vtbl", "disp", "handler">>       \* unresolvable call
CallerOps == {"uni", "multi", "checked", "make", "final", "vcall", "err"}

\* what each updater operation writes, in program order
WritePath(op) ==
    CASE op = "register"   -> <<"cat">>
      [] op = "update"     -> <<"cat", "hashpar", "ctrl", "vec", "svp", "slots", "vtbl", "disp">>
      [] op = "sethandler" -> <<"handler">>
UpdaterOps == {"register", "update", "sethandler"}

\* the storage cell of a kind for a policy: the keying under test
Cell(p, k) == IF k \in SharedKinds THEN <<"*", k>> ELSE <<p, k>>
AllCells == {Cell(p, k) : p \in Policies, k \in Kinds}

Threads == Callers \cup {0}

VARIABLES gen,     \* [cell -> generation last written]
          flux,    \* [cell -> set of threads in the middle of writing it]
          cop,     \* per caller: current operation or "idle"
          cpc,     \* per caller: index of the next access in its operation
          seen,    \* per caller: generations read by the current operation, per kind
          done,    \* per caller: operations completed
          uop,     \* updater: current operation or "idle"
          upc,     \* updater: index of its next write
          uw,      \* updater: in the middle of a write?
          cw,      \* per caller: in the middle of a (cache) write?
          rounds   \* updater operations completed
pvars == <<gen, flux, cop, cpc, seen, done, uop, upc, uw, cw, rounds>>

PInit ==
    /\ gen = [c \in AllCells |-> 0] /\ flux = [c \in AllCells |-> {}]
    /\ cop = [t \in Callers |-> "idle"] /\ cpc = [t \in Callers |-> 1]
    /\ seen = [t \in Callers |-> <<>>] /\ done = [t \in Callers |-> 0]
    /\ uop = "idle" /\ upc = 1 /\ uw = FALSE /\ cw = [t \in Callers |-> FALSE] /\ rounds = 0

\* accesses of a caller operation: its reads, then the writes of CallerWrites (in a fixed order)
WriteSeq == LET S == CallerWrites IN
            IF S = {} THEN <<>> ELSE <<CHOOSE k \in S : TRUE>>      \* one cache cell is enough for the control
Accesses(op) == ReadPath(op) \o WriteSeq
IsWriteIdx(op, i) == i > Len(ReadPath(op))

Begin(t) ==
    /\ cop[t] = "idle" /\ done[t] < 1
    /\ \E op \in CallerOps : cop' = [cop EXCEPT ![t] = op]
    /\ cpc' = [cpc EXCEPT ![t] = 1] /\ seen' = [seen EXCEPT ![t] = <<>>]
    /\ UNCHANGED <<gen, flux, done, uop, upc, uw, cw, rounds>>
Read(t) ==
    /\ cop[t] # "idle" /\ cpc[t] <= Len(ReadPath(cop[t]))
    /\ LET k == ReadPath(cop[t])[cpc[t]] c == Cell(CallerPol, k) IN
         seen' = [seen EXCEPT ![t] = Append(@, <<k, gen[c]>>)]
    /\ cpc' = [cpc EXCEPT ![t] = @ + 1]
    /\ UNCHANGED <<gen, flux, cop, done, uop, upc, uw, cw, rounds>>
CBeginWrite(t) ==
    /\ cop[t] # "idle" /\ cpc[t] > Len(ReadPath(cop[t])) /\ cpc[t] <= Len(Accesses(cop[t])) /\ ~cw[t]
    /\ LET c == Cell(CallerPol, Accesses(cop[t])[cpc[t]]) IN flux' = [flux EXCEPT ![c] = @ \cup {t}]
    /\ cw' = [cw EXCEPT ![t] = TRUE]
    /\ UNCHANGED <<gen, cop, cpc, seen, done, uop, upc, uw, rounds>>
CEndWrite(t) ==
    /\ cw[t]
    /\ LET c == Cell(CallerPol, Accesses(cop[t])[cpc[t]]) IN
         /\ flux' = [flux EXCEPT ![c] = @ \ {t}] /\ gen' = [gen EXCEPT ![c] = 100 + t]
    /\ cw' = [cw EXCEPT ![t] = FALSE] /\ cpc' = [cpc EXCEPT ![t] = @ + 1]
    /\ UNCHANGED <<cop, seen, done, uop, upc, uw, rounds>>
Finish(t) ==
    /\ cop[t] # "idle" /\ cpc[t] = Len(Accesses(cop[t])) + 1
    /\ cop' = [cop EXCEPT ![t] = "idle"] /\ done' = [done EXCEPT ![t] = @ + 1]
    /\ UNCHANGED <<gen, flux, cpc, seen, uop, upc, uw, cw, rounds>>

UBegin ==
    /\ uop = "idle" /\ rounds < Rounds
    /\ \E op \in UpdaterOps : uop' = op
    /\ upc' = 1
    /\ UNCHANGED <<gen, flux, cop, cpc, seen, done, uw, cw, rounds>>
UBeginWrite ==
    /\ uop # "idle" /\ ~uw /\ upc <= Len(WritePath(uop))
    /\ LET c == Cell(Upd, WritePath(uop)[upc]) IN flux' = [flux EXCEPT ![c] = @ \cup {0}]
    /\ uw' = TRUE
    /\ UNCHANGED <<gen, cop, cpc, seen, done, uop, upc, cw, rounds>>
UEndWrite ==
    /\ uw
    /\ LET c == Cell(Upd, WritePath(uop)[upc]) IN
         /\ flux' = [flux EXCEPT ![c] = @ \ {0}] /\ gen' = [gen EXCEPT ![c] = rounds + 1]
    /\ uw' = FALSE /\ upc' = upc + 1
    /\ UNCHANGED <<cop, cpc, seen, done, uop, cw, rounds>>
UFinish ==
    /\ uop # "idle" /\ ~uw /\ upc = Len(WritePath(uop)) + 1
    /\ uop' = "idle" /\ rounds' = rounds + 1
    /\ UNCHANGED <<gen, flux, cop, cpc, seen, done, upc, uw, cw>>

PNext == (\E t \in Callers : Begin(t) \/ Read(t) \/ CBeginWrite(t) \/ CEndWrite(t) \/ Finish(t))
         \/ UBegin \/ UBeginWrite \/ UEndWrite \/ UFinish
PSpec == PInit /\ [][PNext]_pvars

(* the cell a thread accesses next, if any *)
NextCellOf(t) ==
    IF t = 0 THEN (IF uop # "idle" /\ upc <= Len(WritePath(uop)) THEN {Cell(Upd, WritePath(uop)[upc])} ELSE {})
    ELSE (IF cop[t] # "idle" /\ cpc[t] <= Len(Accesses(cop[t])) THEN {Cell(CallerPol, Accesses(cop[t])[cpc[t]])} ELSE {})
(* data race: a cell is being written by one thread while it is the next access of another *)
NoRace == \A t \in Threads : \A c \in NextCellOf(t) : flux[c] \subseteq {t}
(* every caller operation reads each kind of storage in one generation: the sequential answer *)
SequentialAnswer ==
    \A t \in Callers : \A i, j \in DOMAIN seen[t] : seen[t][i][1] = seen[t][j][1] => seen[t][i][2] = seen[t][j][2]
(* the cells of the callers' policies are never written at all while the updater works elsewhere *)
CallersCellsFrozen ==
    (SharedKinds = {} /\ CallerWrites = {} /\ \A t \in Callers : CallerPol # Upd)
        => \A t \in Callers : \A k \in Kinds : gen[Cell(CallerPol, k)] = 0
=============================================================================
