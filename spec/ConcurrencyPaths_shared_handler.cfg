SPECIFICATION PSpec
CONSTANTS Callers = {1}
 CallerPol = "A"
 Upd = "B"
 Rounds = 1
 SharedKinds = {"handler"}
 CallerWrites = {}
INVARIANTS NoRace SequentialAnswer CallersCellsFrozen
CHECK_DEADLOCK FALSE
