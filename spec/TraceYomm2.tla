---------------------------- MODULE TraceYomm2 ----------------------------
(***************************************************************************)
(* Binding: validates an ndjson trace recorded from the real library       *)
(* (harness/dyn) against Yomm2.tla.  One trace action per recorded event   *)
(* kind; every action is the corresponding Yomm2 action with its           *)
(* parameters bound to the logged fields and its observation required to    *)
(* equal the logged observation.  The harness contains no oracle: every     *)
(* verdict on the implementation is made here.                             *)
(***************************************************************************)
EXTENDS Yomm2, Json, IOUtils

CONSTANT Aspects                 \* which observations this validation gates on (one trace format,
                                 \* one spec; each property's check turns on what it decides):
                                 \*   "report"  update report obeys ReportOK (C17)
                                 \*   "errrec"  content of the error record given to the handler (C02)
                                 \*   "recv"    the definition received the caller's objects (C01/C11)
VARIABLE l                       \* next line of the trace
tvars == <<vars, l>>

Tr == ndJsonDeserialize(IOEnv.TRACE)
Ev == Tr[l]
IsEvent(k) == l <= Len(Tr) /\ Tr[l].e = k /\ l' = l + 1

TInit == Init /\ l = 1

(* several executions are concatenated in one file, separated by reset *)
TReset ==
    /\ IsEvent("reset")
    /\ l > 1 => obs.k = "end"
    /\ classes' = [p \in Policy |-> <<>>] /\ methods' = [p \in Policy |-> <<>>]
    /\ defs' = [p \in Policy |-> <<>>] /\ inst' = [p \in Policy |-> NotInstalled]
    /\ fresh' = [p \in Policy |-> FALSE] /\ handler' = [p \in Policy |-> "throw"]
    /\ vps' = <<>> /\ dead' = FALSE /\ obs' = [k |-> "init"]

TClass    == IsEvent("class")    /\ RegisterClass(Ev.p, [r |-> Ev.r, c |-> Ev.c, bases |-> Ev.bases, abs |-> Ev.abs])
TUnclass  == IsEvent("unclass")  /\ UnregisterClass(Ev.p, Ev.r)
TMethod   == IsEvent("method")   /\ DeclareMethod(Ev.p, Ev.m, Ev.vp)
TUnmethod == IsEvent("unmethod") /\ RetireMethod(Ev.p, Ev.m)
TDef      == IsEvent("def")      /\ AddDefinition(Ev.p, Ev.m, Ev.d, Ev.vp)
TUndef    == IsEvent("undef")    /\ RemoveDefinition(Ev.p, Ev.m, Ev.d)
THandler  == IsEvent("handler")  /\ SetHandler(Ev.p, Ev.kind)

TUpdate ==
    /\ IsEvent("update")
    /\ \/ Ev.res = "ok"       /\ IF "report" \in Aspects
                                  THEN UpdateOK(Ev.p, Ev.rep) /\ Ev.rep.cells = Ev.rep.built
                                  ELSE UpdateOKAnyReport(Ev.p)
       \/ Ev.res = "unknown"  /\ UpdateUnknown(Ev.p, Ev.c)
       \/ Ev.res = "hashfail" /\ Ev.hashed /\ UpdateHashFail(Ev.p)

(* the whole outcome table of a method through resolve(): rows [t, o].      *)
(* Exactly the legal tuples must have been exercised.                      *)
RowSet(rows) == {rows[i][1] : i \in DOMAIN rows}
AllTuples(p, m) == LegalTuples(inst[p].anc, inst[p].cls, inst[p].mvp[m])

TTable ==
    /\ IsEvent("table")
    /\ ~dead /\ fresh[Ev.p] /\ inst[Ev.p].ok /\ Ev.m \in DOMAIN inst[Ev.p].mvp
    /\ RowSet(Ev.rows) = AllTuples(Ev.p, Ev.m)
    /\ \A i \in DOMAIN Ev.rows : Ev.rows[i][2] = CallOutcome(Ev.p, Ev.m, Ev.rows[i][1])
    /\ obs' = [k |-> "table"]
    /\ UNCHANGED <<classes, methods, defs, inst, fresh, handler, vps, dead>>

(* the same through operator(): rows [t, o, x] -- x = classes of the        *)
(* objects the definition received, or [status, arity, types] as given to   *)
(* the error handler (which threw).                                        *)
CRowOK(p, m, row) ==
    LET o == CallOutcome(p, m, row[1]) IN
    /\ row[2] = o
    /\ IF o >= 0 THEN ("recv" \in Aspects => row[3] = row[1])
       ELSE LET rec == ErrorRecord(p, m, row[1], o) IN
            "errrec" \in Aspects => row[3] = <<rec.status, rec.arity, rec.types>>

TCTable ==
    /\ IsEvent("ctable")
    /\ ~dead /\ fresh[Ev.p] /\ inst[Ev.p].ok /\ Ev.m \in DOMAIN inst[Ev.p].mvp
    /\ handler[Ev.p] = "throw"
    /\ RowSet(Ev.rows) = AllTuples(Ev.p, Ev.m)
    /\ \A i \in DOMAIN Ev.rows : CRowOK(Ev.p, Ev.m, Ev.rows[i])
    /\ obs' = [k |-> "table"]
    /\ UNCHANGED <<classes, methods, defs, inst, fresh, handler, vps, dead>>

TResolve ==
    /\ IsEvent("resolve")
    /\ Resolve(Ev.p, Ev.m, Ev.t)
    /\ obs'.o = Ev.o

TCall ==
    /\ IsEvent("call")
    /\ Call(Ev.p, Ev.m, Ev.t)
    /\ \/ Ev.o >= 0 /\ obs'.k = "ran" /\ obs'.d = Ev.o
                    /\ ("recv" \in Aspects => obs'.t = Ev.recv)
       \/ Ev.o < 0  /\ obs'.k = "err"
                    /\ obs'.rec.status = (IF Ev.o = NoDef THEN 1 ELSE 2)
                    /\ ("errrec" \in Aspects => obs'.rec = [status |-> Ev.st, arity |-> Ev.ar, types |-> Ev.ty])
                    /\ obs'.then = Ev.then

(* the child process died with SIGABRT: legal only as the specified end of a *)
(* call whose handler returned                                             *)
TDied ==
    /\ IsEvent("died")
    /\ dead /\ obs.k = "err" /\ obs.then = "aborted" /\ Ev.sig = 6
    /\ obs' = [k |-> "died"]
    /\ UNCHANGED <<classes, methods, defs, inst, fresh, handler, vps, dead>>

(* end of one execution (appended by the parent of the executing child):   *)
(* an aborting outcome must have been followed by the death of the child   *)
TEnd ==
    /\ IsEvent("end")
    /\ dead => obs.k = "died"
    /\ obs' = [k |-> "end"]
    /\ dead' = TRUE          \* nothing may follow but a reset
    /\ UNCHANGED <<classes, methods, defs, inst, fresh, handler, vps>>

(* what every definition's next refers to: rows [d, o] *)
TNext ==
    /\ IsEvent("next")
    /\ ~dead /\ fresh[Ev.p] /\ inst[Ev.p].ok /\ Ev.m \in DOMAIN inst[Ev.p].D
    /\ {Ev.rows[i][1] : i \in DOMAIN Ev.rows} = {x.d : x \in inst[Ev.p].D[Ev.m]}
    /\ \A i \in DOMAIN Ev.rows : /\ Ev.rows[i][2] = NextOf(Ev.p, Ev.m, Ev.rows[i][1])   \* by calling through it
                                /\ Ev.rows[i][3] = NextOf(Ev.p, Ev.m, Ev.rows[i][1])   \* by pointer identity
    /\ obs' = [k |-> "next"]
    /\ UNCHANGED <<classes, methods, defs, inst, fresh, handler, vps, dead>>

TNextStep ==
    \/ TReset \/ TClass \/ TUnclass \/ TMethod \/ TUnmethod \/ TDef \/ TUndef \/ THandler
    \/ TUpdate \/ TTable \/ TCTable \/ TResolve \/ TCall \/ TDied \/ TNext \/ TEnd

TSpec == TInit /\ [][TNextStep]_tvars

Accepted ==
    IF TLCGet("stats").diameter - 1 = Len(Tr) THEN TRUE
    ELSE PrintT(<<"REJECTED_AT_LINE", TLCGet("stats").diameter>>) /\ FALSE
=============================================================================
