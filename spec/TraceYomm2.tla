---------------------------- MODULE TraceYomm2 ----------------------------
(***************************************************************************)
(* Binding: validates an ndjson trace recorded from the real library       *)
(* (harness/dyn) against Yomm2.tla.  One trace action per recorded event   *)
(* kind; every action is the corresponding Yomm2 action with its           *)
(* parameters bound to the logged fields and its observation required to    *)
(* equal the logged observation.  The harness contains no oracle: every     *)
(* verdict on the implementation is made here.                             *)
(***************************************************************************)
EXTENDS Yomm2, Json, IOUtils

CONSTANT Aspects                 \* which observations this validation gates on (one trace format,
                                 \* one spec; each property's check turns on what it decides):
                                 \*   "report"  update report obeys ReportOK (C17)
                                 \*   "errrec"  content of the error record given to the handler (C02)
                                 \*   "recv"    the definition received the caller's objects (C01/C11)
VARIABLE l,                      \* next line of the trace
         lay,                    \* per policy: the memory layout recorded after the last update (C04)
         nodes,                  \* per policy: spec class each node of the harness's C++ chain stands for
         soff,                   \* per policy: static offsets compiled into the program, per method (C12)
         enc                     \* per policy: declared sizes of the last emitted dispatch data (C13)
tvars == <<vars, l, lay, nodes, soff, enc>>

Tr == ndJsonDeserialize(IOEnv.TRACE)
Ev == Tr[l]
IsEvent(k) == l <= Len(Tr) /\ Tr[l].e = k /\ l' = l + 1
KeepLay == UNCHANGED <<lay, nodes, soff, enc>>

NoLayout == [size |-> 0, vptr |-> <<>>, ms |-> <<>>, dt |-> <<>>]
TInit == Init /\ l = 1 /\ lay = [p \in Policy |-> NoLayout] /\ nodes = [p \in Policy |-> <<0, 0, 0, 0>>] /\ soff = [p \in Policy |-> <<>>] /\ enc = [p \in Policy |-> [H |-> 0, S |-> 0, E |-> 0, D |-> 0, T |-> 0]]

(* several executions are concatenated in one file, separated by reset *)
TReset ==
    /\ IsEvent("reset")
    /\ l > 1 => obs.k = "end"
    /\ classes' = [p \in Policy |-> <<>>] /\ methods' = [p \in Policy |-> <<>>]
    /\ defs' = [p \in Policy |-> <<>>] /\ inst' = [p \in Policy |-> NotInstalled]
    /\ fresh' = [p \in Policy |-> FALSE] /\ handler' = [p \in Policy |-> "throw"]
    /\ vps' = <<>> /\ dead' = FALSE /\ obs' = [k |-> "init"]
    /\ lay' = [p \in Policy |-> NoLayout] /\ nodes' = [p \in Policy |-> <<0, 0, 0, 0>>] /\ soff' = [p \in Policy |-> <<>>] /\ UNCHANGED enc

TClass    == IsEvent("class")    /\ KeepLay /\ RegisterClass(Ev.p, [r |-> Ev.r, c |-> Ev.c, bases |-> Ev.bases, abs |-> Ev.abs])
TUnclass  == IsEvent("unclass")  /\ KeepLay /\ UnregisterClass(Ev.p, Ev.r)
TMethod   == IsEvent("method")   /\ KeepLay /\ DeclareMethod(Ev.p, Ev.m, Ev.vp)
TUnmethod == IsEvent("unmethod") /\ KeepLay /\ RetireMethod(Ev.p, Ev.m)
TDef      == IsEvent("def")      /\ KeepLay /\ AddDefinition(Ev.p, Ev.m, Ev.d, Ev.vp)
TUndef    == IsEvent("undef")    /\ KeepLay /\ RemoveDefinition(Ev.p, Ev.m, Ev.d)
THandler  == IsEvent("handler")  /\ KeepLay /\ SetHandler(Ev.p, Ev.kind)

TUpdate ==
    /\ IsEvent("update")
    /\ lay' = [lay EXCEPT ![Ev.p] = NoLayout] /\ UNCHANGED nodes
    /\ soff' = [soff EXCEPT ![Ev.p] = <<>>]          \* whatever was loaded is stale after an update
    /\ UNCHANGED enc
    /\ \/ Ev.res = "ok"       /\ IF "report" \in Aspects
                                  THEN UpdateOK(Ev.p, Ev.rep) /\ Ev.rep.cells = Ev.rep.built
                                  ELSE UpdateOKAnyReport(Ev.p)
       \/ Ev.res = "unknown"  /\ UpdateUnknown(Ev.p, Ev.c)
       \/ Ev.res = "hashfail" /\ Ev.hashed /\ UpdateHashFail(Ev.p)

(* A build's generated tables.hpp: dispatch data that update produced in ANOTHER process from the same catalogs  *)
(* (the generator stage of a two-stage build of one source) is installed here by the decoder; update never runs   *)
(* in this process.  From then on calls are served as after update.                                             *)
TInstalled ==
    /\ IsEvent("installed")
    /\ lay' = [lay EXCEPT ![Ev.p] = NoLayout] /\ UNCHANGED nodes
    /\ soff' = [soff EXCEPT ![Ev.p] = <<>>] /\ UNCHANGED enc
    /\ InstallEncoded(Ev.p)

(* the whole outcome table of a method through resolve(): rows [t, o].      *)
(* Exactly the legal tuples must have been exercised.                      *)
RowSet(rows) == {rows[i][1] : i \in DOMAIN rows}
AllTuples(p, m) == LegalTuples(inst[p].anc, inst[p].cls, inst[p].mvp[m])

Lookup(seq, k) == seq[CHOOSE i \in DOMAIN seq : seq[i][1] = k]
HasKey(seq, k) == \E i \in DOMAIN seq : seq[i][1] = k
CellOf(L, c, m, i) == Lookup(L.vptr, c)[2] + Lookup(L.ms, m)[2][i]
(* C12: a method compiled with generated static offsets dispatches exactly like one reading them  *)
(* at run time when the offsets are the installed ones; any other offsets are rejected by the       *)
(* checked policies on every call that uses them: wrong slot -> static slot error (-4), wrong        *)
(* stride -> static stride error (-5).                                                            *)
Installed(p, m) == LET e == Lookup(lay[p].ms, m) IN [slots |-> e[2], strides |-> e[3]]
HasStatic(p, m) == m \in DOMAIN soff[p]
StaticOK(p, m) == HasStatic(p, m) => (lay[p].size > 0 /\ soff[p][m] = Installed(p, m))
StaticErr(p, m) == IF soff[p][m].slots # Installed(p, m).slots THEN -4 ELSE -5
ExpectedOutcome(p, m, t) == IF StaticOK(p, m) THEN CallOutcome(p, m, t) ELSE StaticErr(p, m)

TTable ==
    /\ KeepLay
    /\ IsEvent("table")
    /\ ~dead /\ fresh[Ev.p] /\ inst[Ev.p].ok /\ Ev.m \in DOMAIN inst[Ev.p].mvp
    /\ HasStatic(Ev.p, Ev.m) => lay[Ev.p].size > 0
    /\ RowSet(Ev.rows) = AllTuples(Ev.p, Ev.m)
    /\ \A i \in DOMAIN Ev.rows : Ev.rows[i][2] = ExpectedOutcome(Ev.p, Ev.m, Ev.rows[i][1])
    /\ obs' = [k |-> "table"]
    /\ UNCHANGED <<classes, methods, defs, inst, fresh, handler, vps, dead>>

(* the same through operator(): rows [t, o, x] -- x = classes of the        *)
(* objects the definition received, or [status, arity, types] as given to   *)
(* the error handler (which threw).                                        *)
CRowOK(p, m, row) ==
    LET o == ExpectedOutcome(p, m, row[1]) IN
    /\ row[2] = o
    /\ IF o < -3 THEN TRUE ELSE IF o >= 0 THEN ("recv" \in Aspects => row[3] = row[1])
       ELSE LET rec == ErrorRecord(p, m, row[1], o) IN
            "errrec" \in Aspects => row[3] = <<rec.status, rec.arity, rec.types>>

(* programs with real classes cannot create objects of abstract classes: their tables range over the    *)
(* tuples of concrete classes (event field "concrete")                                                 *)
IsConcreteOnly(ev) == "concrete" \in DOMAIN ev /\ ev.concrete
ConcreteTuples(p, m) == {t \in AllTuples(p, m) : \A i \in DOMAIN t : t[i] \notin inst[p].abs}
TCTable ==
    /\ KeepLay
    /\ IsEvent("ctable")
    /\ ~dead /\ fresh[Ev.p] /\ inst[Ev.p].ok /\ Ev.m \in DOMAIN inst[Ev.p].mvp
    /\ handler[Ev.p] = "throw"
    /\ RowSet(Ev.rows) = (IF IsConcreteOnly(Ev) THEN ConcreteTuples(Ev.p, Ev.m) ELSE AllTuples(Ev.p, Ev.m))
    /\ \A i \in DOMAIN Ev.rows : CRowOK(Ev.p, Ev.m, Ev.rows[i])
    /\ obs' = [k |-> "table"]
    /\ UNCHANGED <<classes, methods, defs, inst, fresh, handler, vps, dead>>

Kind(reads, k) == SelectSeq(reads, LAMBDA r : r[1] = k)
TResolve ==
    /\ KeepLay
    /\ IsEvent("resolve")
    /\ Resolve(Ev.p, Ev.m, Ev.t)
    /\ obs'.o = Ev.o

TCall ==
    /\ KeepLay
    /\ IsEvent("call")
    /\ \/ /\ Ev.then # "unknown"
          /\ Call(Ev.p, Ev.m, Ev.t)
          /\ \/ Ev.o >= 0 /\ obs'.k = "ran" /\ obs'.d = Ev.o
                          /\ ("recv" \in Aspects => obs'.t = Ev.recv)
             \/ Ev.o < 0  /\ obs'.k = "err"
                          /\ obs'.rec.status = (IF Ev.o = NoDef THEN 1 ELSE 2)
                          /\ ("errrec" \in Aspects => obs'.rec = [status |-> Ev.st, arity |-> Ev.ar, types |-> Ev.ty])
                          /\ obs'.then = Ev.then
       \/ /\ Ev.then = "unknown"
          /\ Ev.chk
          /\ CallUnknown(Ev.p, Ev.m, Ev.t, Ev.c)
          \* no table was read through the unregistered class: every v-table read recorded before the
          \* report belongs to an earlier, registered argument
          /\ LET v == Kind(Ev.reads, "v")
                 firstbad == CHOOSE i \in DOMAIN Ev.t : Ev.t[i] \notin inst[Ev.p].cls /\ \A j \in 1..(i - 1) : Ev.t[j] \in inst[Ev.p].cls
             IN /\ Len(v) < firstbad
                /\ lay[Ev.p].size > 0 => \A i \in DOMAIN v : v[i][2] = CellOf(lay[Ev.p], Ev.t[i], Ev.m, i)

(* the child process died with SIGABRT: legal only as the specified end of a *)
(* call whose handler returned                                             *)
TDied ==
    /\ KeepLay
    /\ IsEvent("died")
    /\ dead /\ obs.k = "err" /\ obs.then = "aborted" /\ Ev.sig = 6
    /\ obs' = [k |-> "died"]
    /\ UNCHANGED <<classes, methods, defs, inst, fresh, handler, vps, dead>>

(* ---- generated static offsets (C12) ---- *)
(* what the real generator wrote: for every declared method, position by position the slots and     *)
(* strides update installed (recorded by the preceding layout event)                               *)
TOffsets ==
    /\ IsEvent("offsets") /\ KeepLay
    /\ ~dead /\ fresh[Ev.p] /\ inst[Ev.p].ok /\ lay[Ev.p].size > 0
    /\ ~Ev.illformed
    /\ {Ev.rows[i][1] : i \in DOMAIN Ev.rows} = DOMAIN inst[Ev.p].mvp
    /\ Len(Ev.rows) = Cardinality(DOMAIN inst[Ev.p].mvp)
    /\ \A i \in DOMAIN Ev.rows :
          LET inst_ == Installed(Ev.p, Ev.rows[i][1]) IN
          Ev.rows[i][2] = inst_.slots /\ Ev.rows[i][3] = inst_.strides
    /\ UNCHANGED vars
(* the program is "compiled" with these offsets for method m *)
TSLoad ==
    /\ IsEvent("sload") /\ UNCHANGED <<lay, nodes, enc>>
    /\ ~dead /\ fresh[Ev.p] /\ inst[Ev.p].ok /\ Ev.m \in DOMAIN inst[Ev.p].mvp
    /\ Ev.exact \/ Ev.chk              \* other offsets are only tried under a checked policy
    /\ soff' = [soff EXCEPT ![Ev.p] = [x \in DOMAIN soff[Ev.p] \cup {Ev.m} |->
                    IF x = Ev.m THEN [slots |-> Ev.slots, strides |-> Ev.strides] ELSE soff[Ev.p][x]]]
    /\ UNCHANGED vars
(* the harness did not call a static-offset method whose offsets are not loaded *)
TSSkip ==
    /\ IsEvent("sskip") /\ KeepLay
    /\ ~HasStatic(Ev.p, Ev.m)
    /\ UNCHANGED vars

(* ---- concurrency (C16) ---- *)
(* the per-thread observations of harness/mt.cpp are ordinary resolve / call events (a call leaves the  *)
(* specification's state unchanged, so any interleaving of the threads is the same behaviour); after the   *)
(* concurrent phase the policies' statics must be bit-for-bit what they were before it (the call path is    *)
(* read-only).  ThreadSanitizer reports are turned by the driver into "race" events, for which there is no   *)
(* action: a race rejects the trace.                                                                   *)
TStatics ==
    /\ IsEvent("statics") /\ KeepLay
    /\ Ev.same
    /\ UNCHANGED vars

(* the storage of every policy as address ranges [lo, hi), coalesced per policy, sorted by lo and rank-encoded by   *)
(* the harness: the keying assumed by ConcurrencyPaths.tla (SharedKinds = {}) holds iff no range reaches into the    *)
(* next one (two overlapping ranges in the list necessarily belong to different policies).                        *)
TFootprint ==
    /\ IsEvent("footprint") /\ KeepLay
    /\ LET cs == Ev.cells IN
         /\ \A i \in DOMAIN cs : cs[i].lo < cs[i].hi
         /\ \A i \in 1..(Len(cs) - 1) : cs[i].lo <= cs[i + 1].lo /\ cs[i].hi <= cs[i + 1].lo
         /\ {cs[i].p : i \in DOMAIN cs} \subseteq Policy
    /\ UNCHANGED vars

(* ---- encoded dispatch data (C13) ---- *)
(* what the real generator emitted for the last update: array sizes as declared (H headroom, S slots, *)
(* E encoded v-table words, D decoded v-table cells, T dispatch-table cells) and the number of          *)
(* initialisers of each array.  Compilers accept it only if the sizes are non-negative and no array     *)
(* has more initialisers than elements.                                                              *)
TEncoded ==
    /\ IsEvent("encoded") /\ UNCHANGED <<nodes, soff, lay>>
    /\ ~dead /\ fresh[Ev.p] /\ inst[Ev.p].ok
    /\ ~Ev.ill
    /\ Ev.H >= 0 /\ Ev.S >= 0 /\ Ev.E >= 0 /\ Ev.D >= 0 /\ Ev.T >= 0
    /\ Ev.ns <= Ev.S /\ Ev.nv <= Ev.E /\ Ev.nt <= Ev.T
    /\ enc' = [enc EXCEPT ![Ev.p] = [H |-> Ev.H, S |-> Ev.S, E |-> Ev.E, D |-> Ev.D, T |-> Ev.T]]
    /\ UNCHANGED vars
(* the real decoder ran on that data in a process where update had not run: every 16-bit fetch lies in  *)
(* the encoded v-tables, every v-table store in the decoded v-tables, every dispatch-table store in the   *)
(* dispatch tables (byte offsets from the start of the union / of dtbls), and no store overwrites a word  *)
(* that is fetched later.  From then on calls are served by the decoded tables: the events that follow     *)
(* are validated like after update.                                                                  *)
TDecoded ==
    /\ IsEvent("decoded") /\ UNCHANGED <<nodes, soff>>
    /\ ~dead /\ fresh[Ev.p] /\ inst[Ev.p].ok
    /\ Ev.res = "ok"
    /\ LET z == enc[Ev.p]
           fs == {i \in DOMAIN Ev.ev : Ev.ev[i][1] = "f"}
           ss == {i \in DOMAIN Ev.ev : Ev.ev[i][1] = "s"}
           ts == {i \in DOMAIN Ev.ev : Ev.ev[i][1] = "t"} IN
       /\ \A i \in fs : Ev.ev[i][2] >= 2 * (z.H + z.S) /\ Ev.ev[i][2] + 2 <= 2 * (z.H + z.S + z.E)
       /\ \A i \in ss : Ev.ev[i][2] >= 0 /\ Ev.ev[i][2] + 8 <= 8 * z.D
       /\ \A i \in ts : Ev.ev[i][2] >= 0 /\ Ev.ev[i][2] + 8 <= 8 * z.T
       /\ \A i \in ss : \A j \in fs : j > i => ~(Ev.ev[j][2] + 2 > Ev.ev[i][2] /\ Ev.ev[j][2] < Ev.ev[i][2] + 8)
    /\ lay' = [lay EXCEPT ![Ev.p] = NoLayout] /\ UNCHANGED enc
    /\ UNCHANGED vars

(* ---- virtual_ptr handles (C09, C15) ---- *)
NodeClass(p, k) == nodes[p][k + 1]
TNode ==
    /\ IsEvent("node") /\ UNCHANGED <<lay, soff, enc>>
    /\ Ev.ok
    /\ nodes' = [nodes EXCEPT ![Ev.p][Ev.k + 1] = Ev.c]
    /\ UNCHANGED vars
TVptr ==
    /\ IsEvent("vptr") /\ KeepLay
    /\ LET st == NodeClass(Ev.p, Ev.k) IN
       \/ Ev.res = "ok"      /\ \/ MakeVptr(Ev.p, Ev.h, st, Ev.dyn, Ev.oid, Ev.ind, Ev.route)
                                \/ MakeVptrEarly(Ev.p, Ev.h, st, Ev.dyn, Ev.oid, Ev.ind, Ev.route)
       \/ Ev.res = "unknown" /\ Ev.chk /\ MakeVptrUnknown(Ev.p, Ev.dyn) /\ Ev.c = Ev.dyn
       \/ Ev.res = "mtable"  /\ Ev.chk /\ MakeVptrNotFinal(Ev.p, st, Ev.dyn, Ev.route) /\ Ev.c = Ev.dyn
TVDerive ==
    /\ IsEvent("vderive") /\ KeepLay
    /\ Ev.res = "ok"
    /\ DeriveVptr(Ev.h, Ev.from)
    /\ obs'.oid = Ev.oid
    \* a conversion or cast is legal only towards a class the pointee really has
    /\ NodeClass(Ev.p, Ev.k) \in inst[Ev.p].anc[vps[Ev.from].dyn]
TVDrop == IsEvent("vdrop") /\ KeepLay /\ DropVptr(Ev.h)
TVGet ==
    /\ IsEvent("vget") /\ KeepLay
    /\ GetVptr(Ev.h)
    /\ \A i \in DOMAIN Ev.oids : Ev.oids[i] = obs'.oid
TVCall ==
    /\ IsEvent("vcall") /\ KeepLay
    /\ VpCall(Ev.p, Ev.m, Ev.hs)
    /\ obs'.o = Ev.o
    /\ Ev.o >= 0 => obs'.oids = Ev.recv
(* the harness refused to touch a handle that is no longer valid (direct     *)
(* virtual_ptr after an update)                                            *)
TVSkip ==
    /\ IsEvent("vskip") /\ KeepLay
    /\ \E i \in DOMAIN Ev.hs : IF Ev.hs[i] \in DOMAIN vps THEN ~VpValid(vps[Ev.hs[i]]) ELSE TRUE
    /\ UNCHANGED vars

(* an observation the harness refused to make because it would not be a     *)
(* legal use (no successful update since the last catalog change)           *)
TSkip ==
    /\ IsEvent("skip")
    /\ KeepLay
    /\ ~(fresh[Ev.p] /\ inst[Ev.p].ok)
    /\ UNCHANGED vars

(* end of one execution (appended by the parent of the executing child):   *)
(* an aborting outcome must have been followed by the death of the child   *)
TEnd ==
    /\ KeepLay
    /\ IsEvent("end")
    /\ dead => obs.k = "died"
    /\ obs' = [k |-> "end"]
    /\ dead' = TRUE          \* nothing may follow but a reset
    /\ UNCHANGED <<classes, methods, defs, inst, fresh, handler, vps>>

(***************************************************************************)
(* C04: where update put things.  Offsets are in words from the start of    *)
(* the policy's dispatch data: size, the (biased) v-table pointer of every  *)
(* class, the installed slots and strides of every method, the extent of    *)
(* every multi-method dispatch table.  Slot numbers and table order are     *)
(* implementation freedom; what is required is the declarative contract:   *)
(* every (class, method, parameter) with the class acceptable at that        *)
(* parameter owns a cell inside the data, no two share a cell, no cell lies  *)
(* inside a dispatch table, tables are inside the data and disjoint.        *)
(***************************************************************************)
Triples(p) ==
    {tr \in inst[p].cls \X (DOMAIN inst[p].mvp) \X (1..4) :
        tr[3] <= Len(inst[p].mvp[tr[2]]) /\ inst[p].mvp[tr[2]][tr[3]] \in inst[p].anc[tr[1]]}
InTable(L, m, off) == HasKey(L.dt, m) /\ LET d == Lookup(L.dt, m) IN off >= d[2] /\ off < d[2] + d[3]
LayoutOK(p, L) ==
    /\ \A c \in inst[p].cls : HasKey(L.vptr, c)
    /\ \A m \in DOMAIN inst[p].mvp : HasKey(L.ms, m) /\ Len(Lookup(L.ms, m)[2]) = Len(inst[p].mvp[m])
    /\ \A m \in DOMAIN inst[p].mvp : Len(inst[p].mvp[m]) > 1 => HasKey(L.dt, m)
    /\ \A i \in DOMAIN L.dt : L.dt[i][2] >= 0 /\ L.dt[i][3] >= 1 /\ L.dt[i][2] + L.dt[i][3] <= L.size
    /\ \A i, j \in DOMAIN L.dt : i # j => (L.dt[i][2] + L.dt[i][3] <= L.dt[j][2] \/ L.dt[j][2] + L.dt[j][3] <= L.dt[i][2])
    /\ LET T == Triples(p) IN
         /\ \A tr \in T : LET cell == CellOf(L, tr[1], tr[2], tr[3]) IN
               /\ cell >= 0 /\ cell < L.size
               /\ \A i \in DOMAIN L.dt : ~(cell >= L.dt[i][2] /\ cell < L.dt[i][2] + L.dt[i][3])
         /\ Cardinality({CellOf(L, tr[1], tr[2], tr[3]) : tr \in T}) = Cardinality(T)     \* no two triples share a cell

TLayout ==
    /\ IsEvent("layout")
    /\ ~dead /\ fresh[Ev.p] /\ inst[Ev.p].ok
    /\ LayoutOK(Ev.p, Ev)
    /\ lay' = [lay EXCEPT ![Ev.p] = [size |-> Ev.size, vptr |-> Ev.vptr, ms |-> Ev.ms, dt |-> Ev.dt]] /\ UNCHANGED <<nodes, soff, enc>>
    /\ obs' = [k |-> "layout"]
    /\ UNCHANGED <<classes, methods, defs, inst, fresh, handler, vps, dead>>

(* the addresses a resolve really dereferenced (hook H2), rows [t, reads]:   *)
(* the v-table reads are exactly the cells owned by (class of argument i,   *)
(* method, i), in order; every dispatch-table read lies in this method's     *)
(* table; a uni-method reads nothing else.                                 *)
ReadsRowOK(p, m, row) ==
    LET L == lay[p] t == row[1] v == Kind(row[2], "v") d == Kind(row[2], "d") IN
    /\ Len(v) = Len(t)
    /\ \A i \in DOMAIN t : v[i][2] = CellOf(L, t[i], m, i)
    /\ Len(v) + Len(d) = Len(row[2])
    /\ IF Len(t) = 1 THEN d = <<>> ELSE Len(d) = 1 /\ InTable(L, m, d[1][2])

TReads ==
    /\ IsEvent("reads")
    /\ KeepLay
    /\ ~dead /\ fresh[Ev.p] /\ inst[Ev.p].ok /\ Ev.m \in DOMAIN inst[Ev.p].mvp
    /\ lay[Ev.p].size > 0
    /\ RowSet(Ev.rows) = AllTuples(Ev.p, Ev.m)
    /\ \A i \in DOMAIN Ev.rows : ReadsRowOK(Ev.p, Ev.m, Ev.rows[i])
    /\ obs' = [k |-> "reads"]
    /\ UNCHANGED <<classes, methods, defs, inst, fresh, handler, vps, dead>>

(* what every definition's next refers to: rows [d, o] *)
TNext ==
    /\ KeepLay
    /\ IsEvent("next")
    /\ ~dead /\ fresh[Ev.p] /\ inst[Ev.p].ok /\ Ev.m \in DOMAIN inst[Ev.p].D
    /\ LET skipped == IF "skip" \in DOMAIN Ev THEN {Ev.skip[i] : i \in DOMAIN Ev.skip} ELSE {}   \* definitions registered without a next pointer
           observed == {Ev.rows[i][1] : i \in DOMAIN Ev.rows}
       IN /\ observed \cap skipped = {}
          /\ observed \cup skipped =
               {x.d : x \in {y \in inst[Ev.p].D[Ev.m] : IsConcreteOnly(Ev) => \A i \in DOMAIN y.vp : y.vp[i] \notin inst[Ev.p].abs}}
    /\ \A i \in DOMAIN Ev.rows : /\ Ev.rows[i][2] = NextOf(Ev.p, Ev.m, Ev.rows[i][1])   \* by calling through it
                                /\ Ev.rows[i][3] = NextOf(Ev.p, Ev.m, Ev.rows[i][1])   \* by pointer identity
    /\ obs' = [k |-> "next"]
    /\ UNCHANGED <<classes, methods, defs, inst, fresh, handler, vps, dead>>

TNextStep ==
    \/ TReset \/ TClass \/ TUnclass \/ TMethod \/ TUnmethod \/ TDef \/ TUndef \/ THandler
    \/ TUpdate \/ TInstalled \/ TTable \/ TCTable \/ TResolve \/ TCall \/ TDied \/ TNext \/ TEnd \/ TLayout \/ TReads \/ TSkip \/ TStatics \/ TFootprint \/ TEncoded \/ TDecoded \/ TOffsets \/ TSLoad \/ TSSkip \/ TNode \/ TVptr \/ TVDerive \/ TVDrop \/ TVGet \/ TVCall \/ TVSkip

TSpec == TInit /\ [][TNextStep]_tvars

Accepted ==
    IF TLCGet("stats").diameter - 1 = Len(Tr) THEN TRUE
    ELSE PrintT(<<"REJECTED_AT_LINE", TLCGet("stats").diameter>>) /\ FALSE
=============================================================================
