-------------------------------- MODULE Hash --------------------------------
(***************************************************************************)
(* C05.  Declarative part: the contract a type-id hash must satisfy.        *)
(* Mechanism part: a W-bit model of fast_perfect_hash::hash_initialize and   *)
(* of the publication of v-table pointers -- the multiplier search with its  *)
(* four table sizes, the attempt budget (hook H1), the early exit on a       *)
(* collision, and the state that persists from one update to the next (the   *)
(* largest index ever seen is never reset).  The pseudo-random multiplier is *)
(* replaced by a nondeterministic choice among the odd W-bit words, so TLC   *)
(* examines every multiplier sequence.                                     *)
(***************************************************************************)
EXTENDS Integers, Sequences, FiniteSets, TLC

(* ---- contract ---- *)
(* H: function id -> index; len: size of the pointer vector; slot[i]: id     *)
(* whose v-table pointer is stored at i; control[i]: id recorded at i        *)
PerfectOn(ids, H, len, slot) ==
    /\ \A x \in ids : H[x] >= 0 /\ H[x] < len /\ slot[H[x]] = x
    /\ \A x, y \in ids : x # y => H[x] # H[y]
CheckedRejects(universe, ids, H, len, control) ==
    \A x \in universe \ ids : H[x] >= len \/ control[H[x]] # x

(* ---- mechanism ---- *)
CONSTANTS W,          \* word size in bits
          Universe,   \* the type ids that can be registered (subset of 0..2^W-2; 2^W-1 plays invalid_type)
          MaxIds,     \* at most this many ids registered at once
          Budget,     \* attempts per table size (hook H1)
          MaxUpdates

Pow2(n) == 2 ^ n
Word == Pow2(W)
Empty == Word - 1              \* the "-1" sentinel
OddWords == {m \in 1..(Word - 1) : m % 2 = 1}
RECURSIVE Log2Steps(_)
Log2Steps(size) == IF size \div 2 = 0 THEN 0 ELSE 1 + Log2Steps(size \div 2)
M0(n) == 1 + Log2Steps((n * 5) \div 4)          \* for (size = N*5/4; size >>= 1;) ++M
Hf(mult, M, x) == ((x * mult) % Word) \div Pow2(W - M)

VARIABLES ids, phase, pass, attempts, M, mult, hmax, length, control, slot, updates
hvars == <<ids, phase, pass, attempts, M, mult, hmax, length, control, slot, updates>>

HInit ==
    /\ ids = {} /\ phase = "idle" /\ pass = 0 /\ attempts = 0 /\ M = 1 /\ mult = 1
    /\ hmax = 0 /\ length = 0 /\ control = <<>> /\ slot = <<>> /\ updates = 0

StartUpdate(S) ==
    /\ phase \in {"idle", "done"} /\ updates < MaxUpdates
    /\ ids' = S /\ phase' = "search" /\ pass' = 0 /\ attempts' = 0
    /\ M' = M0(Cardinality(S))
    /\ updates' = updates + 1
    /\ UNCHANGED <<mult, hmax, length, control, slot>>     \* hmax persists

(* one attempt with multiplier m: fill the buckets in id order, stop at the first collision *)
RECURSIVE Fill(_, _, _, _, _)
\* returns [ok, buckets, hmax]
Fill(todo, m, MM, b, hm) ==
    IF todo = <<>> THEN [ok |-> TRUE, buckets |-> b, hmax |-> hm]
    ELSE LET x == Head(todo)
             i == Hf(m, MM, x)
             hm2 == IF i > hm THEN i ELSE hm
         IN  IF b[i] # Empty THEN [ok |-> FALSE, buckets |-> b, hmax |-> hm2]
             ELSE Fill(Tail(todo), m, MM, [b EXCEPT ![i] = x], hm2)
SortedIds(S) == LET RECURSIVE Srt(_) Srt(T) == IF T = {} THEN <<>> ELSE LET mn == CHOOSE a \in T : \A b \in T : a <= b IN <<mn>> \o Srt(T \ {mn}) IN Srt(S)

Attempt(m) ==
    /\ phase = "search" /\ attempts < Budget
    /\ LET size == Pow2(M)
           r == Fill(SortedIds(ids), m, M, [i \in 0..(size - 1) |-> Empty], hmax)
       IN /\ mult' = m /\ hmax' = r.hmax
          /\ IF r.ok
             THEN /\ phase' = "done"
                  /\ length' = r.hmax + 1
                  \* control.resize(hash_length): truncated or zero-extended copy of the buckets
                  /\ control' = [i \in 0..r.hmax |-> IF i < size THEN r.buckets[i] ELSE 0]
                  \* vptrs.resize(length); then vptrs[hash(id)] = vptr of id, for every id (stale cells keep old content)
                  /\ slot' = [i \in 0..r.hmax |->
                                IF \E x \in ids : Hf(m, M, x) = i THEN CHOOSE x \in ids : Hf(m, M, x) = i
                                ELSE IF i \in DOMAIN slot THEN slot[i] ELSE Empty]
                  /\ UNCHANGED <<pass, attempts, M>>
             ELSE /\ attempts' = attempts + 1
                  /\ UNCHANGED <<phase, pass, M, length, control, slot>>
    /\ UNCHANGED <<ids, updates>>

NextSize ==
    /\ phase = "search" /\ attempts = Budget
    /\ IF pass = 3 THEN phase' = "failed" /\ UNCHANGED <<pass, M, attempts>>
       ELSE pass' = pass + 1 /\ M' = M + 1 /\ attempts' = 0 /\ UNCHANGED phase
    /\ UNCHANGED <<ids, mult, hmax, length, control, slot, updates>>

HNext ==
    \/ \E S \in SUBSET Universe : Cardinality(S) <= MaxIds /\ StartUpdate(S)
    \/ \E m \in OddWords : Attempt(m)
    \/ NextSize
HSpec == HInit /\ [][HNext]_hvars

Hnow == [x \in Universe |-> Hf(mult, M, x)]
(* whenever the search declares success the installed hash satisfies the contract *)
ContractHolds ==
    phase = "done" =>
        /\ PerfectOn(ids, Hnow, length, slot)
        /\ CheckedRejects(Universe, ids, Hnow, length, control)
        /\ M <= W
(* the search only fails after exhausting four table sizes *)
FailsOnlyWhenExhausted == phase = "failed" => pass = 3 /\ attempts = Budget
MFits == M <= W
=============================================================================
