SPECIFICATION TSpecT
CONSTANTS K = 1
 MaxLists = 1
 MaxLen = 1
 MaxUndef = 0
 EMIT = FALSE
POSTCONDITION Accepted
CHECK_DEADLOCK FALSE
