------------------------------ MODULE GenReg ------------------------------
(***************************************************************************)
(* R binding, generation side: TLC enumerates every registry of a bounded  *)
(* universe -- every transitively reduced inheritance graph over N classes *)
(* (edges from a higher to a lower class number), every method parameter   *)
(* tuple of arity AR, every set of at most MAXD definitions acceptable to    *)
(* the method -- and prints each as a JSON stimulus (no expected values).    *)
(* The oracle theorems of Dispatch.tla are checked on every one of them.    *)
(***************************************************************************)
EXTENDS Dispatch, TLC, Json, FiniteSetsExt, SequencesExt

CONSTANTS N, AR, MAXD, EMIT
Class == 1..N
PossibleEdges == {e \in Class \X Class : e[1] > e[2]}

VARIABLES edges, mvp, defs
gvars == <<edges, mvp, defs>>

RECURSIVE AncOf(_, _)
AncOf(E, c) == {c} \cup UNION {AncOf(E, e[2]) : e \in {x \in E : x[1] = c}}
AncF(E) == [c \in Class |-> AncOf(E, c)]
Direct(E, c) == {e[2] : e \in {x \in E : x[1] = c}}
Reduced(E) == \A c \in Class : \A j, k \in Direct(E, c) : k # j => j \notin AncOf(E, k)

Tuples == [1..AR -> Class]
AcceptableDefs(E, vp) == {t \in Tuples : \A i \in 1..AR : vp[i] \in AncOf(E, t[i])}
(* all subsets of S with at most k elements (kSubset of the CommunityModules is limited to 62 elements) *)
RECURSIVE UpTo(_, _)
UpTo(S, k) == IF k = 0 THEN {{}} ELSE LET R == UpTo(S, k - 1) IN R \cup {T \cup {x} : T \in R, x \in S}

Init ==
    /\ edges \in {E \in SUBSET PossibleEdges : Reduced(E)}
    /\ mvp \in Tuples
    /\ defs \in UpTo(AcceptableDefs(edges, mvp), MAXD)
Next == UNCHANGED gvars
Spec == Init /\ [][Next]_gvars

(* the smallest lattice on which MoreSpecific is not transitive:            *)
(* 1; 2:1; 3:2; 4:1; 5:{3,4} -- every definition set of a (1,1) method      *)
D2Edges == {<<2, 1>>, <<3, 2>>, <<4, 1>>, <<5, 3>>, <<5, 4>>}
InitD2 == /\ edges = D2Edges /\ mvp = [i \in 1..AR |-> 1]
          /\ defs \in UpTo(AcceptableDefs(edges, mvp), MAXD)
SpecD2 == InitD2 /\ [][Next]_gvars
DefRecs == LET s == SetToSeq(defs) IN {[d |-> i - 1, vp |-> s[i]] : i \in 1..Len(s)}

NotTransitiveHere ==   \* TLC exhibits the witness when asked to check this (GenRegD2nt.cfg)
    LET anc == AncF(edges) D == DefRecs IN
    \A a, b, c \in D : MoreSpecific(anc, a, b) /\ MoreSpecific(anc, b, c) => MoreSpecific(anc, a, c)

OracleTheorems ==
    LET anc == AncF(edges) D == DefRecs IN
    /\ MoreSpecificIrreflexive(anc, D)
    /\ MoreSpecificAsymmetric(anc, D)
    /\ NextIsMoreGeneral(anc, D)
    /\ \A t \in LegalTuples(anc, Class, mvp) : AtMostOneWinner(anc, D, t) /\ WinnerIsApplicable(anc, D, t)

Emit ==
    IF EMIT THEN PrintT(ToJson([edges |-> edges, mvp |-> mvp, defs |-> SetToSeq(defs)])) ELSE TRUE
=============================================================================
