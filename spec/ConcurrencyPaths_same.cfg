SPECIFICATION PSpec
CONSTANTS Callers = {1}
 CallerPol = "A"
 Upd = "A"
 Rounds = 1
 SharedKinds = {}
 CallerWrites = {}
INVARIANTS NoRace SequentialAnswer CallersCellsFrozen
CHECK_DEADLOCK FALSE
