SPECIFICATION OSpec
CONSTANTS MaxArity = 6
 Fixed = TRUE
INVARIANTS EmitterOK CheckOK
CHECK_DEADLOCK FALSE
