SPECIFICATION Spec
CONSTANTS N = 4
 AR = 1
 MAXD = 3
 FixedBest = TRUE
INVARIANT WalkIsOracle
CHECK_DEADLOCK FALSE
