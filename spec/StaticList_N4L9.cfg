SPECIFICATION Spec
CONSTANTS Node = {1, 2, 3, 4}
 MaxLen = 9
 EMIT = FALSE
CONSTRAINT Bound
INVARIANTS Refines LastOK Detached SizeOK EmitH
CHECK_DEADLOCK FALSE
