SPECIFICATION SpecD2
CONSTANTS N = 5
 AR = 2
 MAXD = 3
 EMIT = FALSE
INVARIANTS NotTransitiveHere
CHECK_DEADLOCK FALSE
