SPECIFICATION CSpec
CONSTANTS Callers = {1, 2}
 Upd = "A"
 Rounds = 1
INVARIANTS NoRace SequentialAnswer
CHECK_DEADLOCK FALSE
