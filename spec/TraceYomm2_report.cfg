SPECIFICATION TSpec
CONSTANT Policy = {0, 1, 2, 3, 4, 5, 6}
CONSTANT Aspects = {"report"}
POSTCONDITION Accepted
CHECK_DEADLOCK FALSE
