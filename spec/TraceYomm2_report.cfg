SPECIFICATION TSpec
CONSTANT Policy = {0, 1, 2}
CONSTANT Aspects = {"report"}
POSTCONDITION Accepted
CHECK_DEADLOCK FALSE
