SPECIFICATION Spec
CONSTANTS N = 4
 AR = 1
 MAXD = 3
 EMIT = TRUE
INVARIANTS OracleTheorems Emit
CHECK_DEADLOCK FALSE
