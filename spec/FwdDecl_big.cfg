SPECIFICATION FSpec
CONSTANTS Idents <- Idents5
 Depth = 3
 MaxNames = 3
 Broken = FALSE
 EMIT = FALSE
INVARIANTS WriterIsWellFormed EmitReq
CHECK_DEADLOCK FALSE
