SPECIFICATION PSpec
CONSTANTS Callers = {1, 2}
 CallerPol = "A"
 Upd = "B"
 Rounds = 0
 SharedKinds = {}
 CallerWrites = {"cache"}
INVARIANTS NoRace SequentialAnswer CallersCellsFrozen
CHECK_DEADLOCK FALSE
