SPECIFICATION Spec
CONSTANTS N = 4
 AR = 2
 MAXD = 3
 FixedBest = TRUE
INVARIANT WalkIsOracle
CHECK_DEADLOCK FALSE
