------------------------------ MODULE TraceFwd ------------------------------
(***************************************************************************)
(* Validates the text written by the real generator (harness/fwd.cpp)       *)
(* against the acceptor of FwdDecl.tla: each "fwd" event carries the         *)
(* requested qualified names (for extraction runs: the class names the       *)
(* stimulus grammar put into the type descriptions) and the token sequence   *)
(* of the written text.                                                    *)
(***************************************************************************)
EXTENDS FwdDecl, IOUtils
VARIABLE l
Tr == ndJsonDeserialize(IOEnv.TRACE)
Ev == Tr[l]
TInit == l = 1 /\ req = {}
TReset == l <= Len(Tr) /\ Ev.e = "reset" /\ l' = l + 1 /\ UNCHANGED req
TFwd ==
    /\ l <= Len(Tr) /\ Ev.e = "fwd" /\ l' = l + 1
    /\ WellFormed(Ev.tokens, {Ev.names[i] : i \in DOMAIN Ev.names})
    /\ UNCHANGED req
TSpec == TInit /\ [][TReset \/ TFwd]_<<l, req>>
Accepted ==
    IF TLCGet("stats").diameter - 1 = Len(Tr) THEN TRUE
    ELSE PrintT(<<"REJECTED_AT_LINE", TLCGet("stats").diameter>>) /\ FALSE
=============================================================================
