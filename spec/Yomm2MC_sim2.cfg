SPECIFICATION MCSpec
CONSTANTS Policy = {0, 1}
 MaxLen = 16
 NC = 5
 NM = 2
 ND = 6
 EMIT = TRUE
CONSTRAINT Bound
INVARIANTS TypeOK PathIndependent Emit
PROPERTY IsolationProp
CHECK_DEADLOCK FALSE
