SPECIFICATION TSpec
CONSTANT Policy = {0, 1, 2}
CONSTANT Aspects = {"report", "errrec", "recv"}
POSTCONDITION Accepted
CHECK_DEADLOCK FALSE
