SPECIFICATION Spec
CONSTANTS N = 3
 AR = 3
 MAXD = 2
 FixedBest = TRUE
INVARIANT WalkIsOracle
CHECK_DEADLOCK FALSE
