SPECIFICATION Spec
CONSTANTS N = 4
 MAXM = 4
 MODE = "direct"
 EMIT = TRUE
INVARIANTS PresentationInvariant Emit
CHECK_DEADLOCK FALSE
