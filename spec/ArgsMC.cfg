SPECIFICATION ASpec
CONSTANT EMIT = TRUE
INVARIANTS AcceptSane EmitA RetCoverage
CHECK_DEADLOCK FALSE
