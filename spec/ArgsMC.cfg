SPECIFICATION ASpec
CONSTANT EMIT = TRUE
INVARIANTS AcceptSane EmitA
CHECK_DEADLOCK FALSE
