-------------------------- MODULE TraceStaticList --------------------------
(***************************************************************************)
(* Validates traces recorded from the real static_list<T> (harness/sl.cpp)  *)
(* against StaticList.tla.  Each event carries the operation and what the    *)
(* real list showed afterwards: iteration order, size(), empty(), and, for    *)
(* the instrumented node type, first and every node's prev / next.          *)
(***************************************************************************)
EXTENDS StaticList, IOUtils

VARIABLE l
Tr == ndJsonDeserialize(IOEnv.TRACE)
Ev == Tr[l]
IsEvent(k) == l <= Len(Tr) /\ Tr[l].e = k /\ l' = l + 1

TInit == Init /\ l = 1
(* what the real list shows must be what the specification's state is *)
Observed ==
    /\ Ev.iter = seq'
    /\ Ev.size = Len(seq')
    /\ Ev.empty = (seq' = <<>>)
    /\ Ev.links => /\ Ev.first = first'
                   /\ \A n \in Node : Ev.prev[n] = prev'[n] /\ Ev.next[n] = next'[n]
TReset == /\ IsEvent("reset")
          /\ first' = Null /\ prev' = [n \in Node |-> Null] /\ next' = [n \in Node |-> Null]
          /\ seq' = <<>> /\ hist' = <<>>
TPush   == IsEvent("push")   /\ PushBack(Ev.n) /\ Observed
TRemove == IsEvent("remove") /\ Remove(Ev.n)   /\ Observed
TClear  == IsEvent("clear")  /\ Clear          /\ Observed
TNext == TReset \/ TPush \/ TRemove \/ TClear
TSpec == TInit /\ [][TNext]_<<vars, l>>
Accepted ==
    IF TLCGet("stats").diameter - 1 = Len(Tr) THEN TRUE
    ELSE PrintT(<<"REJECTED_AT_LINE", TLCGet("stats").diameter>>) /\ FALSE
=============================================================================
