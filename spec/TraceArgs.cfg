SPECIFICATION TSpecA
CONSTANT EMIT = FALSE
POSTCONDITION Accepted
CHECK_DEADLOCK FALSE
