SPECIFICATION Spec
CONSTANTS N = 3
 AR = 3
 MAXD = 2
 EMIT = TRUE
INVARIANTS OracleTheorems Emit
CHECK_DEADLOCK FALSE
