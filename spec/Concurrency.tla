---------------------------- MODULE Concurrency ----------------------------
(***************************************************************************)
(* C16, mechanism layer.  After update has returned, a call is a sequence    *)
(* of plain reads of cells that belong to the policy: hash parameters, the    *)
(* cell of the v-table pointer vector, the method's slots and strides, a      *)
(* v-table cell, a dispatch-table cell.  update is a sequence of plain         *)
(* writes to the cells of the policy it is run on.  Nothing is synchronised:   *)
(* a data race exists as soon as a state is reachable in which a cell is       *)
(* being written while some caller's next access is that cell.                *)
(*                                                                         *)
(* Callers use policy "A".  With the updater on another policy (Upd = "B")     *)
(* TLC shows: no race, every caller reads one consistent generation of the      *)
(* tables, i.e. the sequential answer.  With the updater on the same policy     *)
(* (Upd = "A", the negative control) TLC exhibits the race: that use is         *)
(* outside the property.                                                     *)
(***************************************************************************)
EXTENDS Integers, Sequences, FiniteSets, TLC

CONSTANTS Callers,   \* set of caller threads
          Upd,       \* policy the updater works on: "A" or "B"
          Rounds     \* updates performed
Path == <<"hash", "vec", "slots", "vtbl", "disp">>     \* the cells a call reads, in order
Cells == {<<p, Path[i]>> : p \in {"A", "B"}, i \in 1..Len(Path)}

VARIABLES gen,      \* generation stored in each cell (what update wrote last)
          flux,     \* cells in the middle of being written
          pc,       \* per caller: index of the next read (Len(Path)+1 = finished)
          seen,     \* per caller: generations read so far
          upc,      \* updater: [round, next cell index, writing?]
          calls     \* calls completed per caller
cvars == <<gen, flux, pc, seen, upc, calls>>

CInit ==
    /\ gen = [c \in Cells |-> 0] /\ flux = {}
    /\ pc = [t \in Callers |-> 1] /\ seen = [t \in Callers |-> <<>>]
    /\ upc = [round |-> 1, idx |-> 1, writing |-> FALSE]
    /\ calls = [t \in Callers |-> 0]

Read(t) ==
    /\ pc[t] <= Len(Path)
    /\ LET c == <<"A", Path[pc[t]]>> IN seen' = [seen EXCEPT ![t] = Append(@, gen[c])]
    /\ pc' = [pc EXCEPT ![t] = @ + 1]
    /\ UNCHANGED <<gen, flux, upc, calls>>
Finish(t) ==
    /\ pc[t] = Len(Path) + 1 /\ calls[t] < 2
    /\ pc' = [pc EXCEPT ![t] = 1] /\ seen' = [seen EXCEPT ![t] = <<>>] /\ calls' = [calls EXCEPT ![t] = @ + 1]
    /\ UNCHANGED <<gen, flux, upc>>
BeginWrite ==
    /\ upc.round <= Rounds /\ ~upc.writing
    /\ flux' = flux \cup {<<Upd, Path[upc.idx]>>}
    /\ upc' = [upc EXCEPT !.writing = TRUE]
    /\ UNCHANGED <<gen, pc, seen, calls>>
EndWrite ==
    /\ upc.writing
    /\ LET c == <<Upd, Path[upc.idx]>> IN gen' = [gen EXCEPT ![c] = upc.round] /\ flux' = flux \ {c}
    /\ upc' = IF upc.idx = Len(Path) THEN [round |-> upc.round + 1, idx |-> 1, writing |-> FALSE]
              ELSE [upc EXCEPT !.idx = @ + 1, !.writing = FALSE]
    /\ UNCHANGED <<pc, seen, calls>>
CNext == (\E t \in Callers : Read(t) \/ Finish(t)) \/ BeginWrite \/ EndWrite
CSpec == CInit /\ [][CNext]_cvars

NextCell(t) == <<"A", Path[pc[t]]>>
NoRace == \A t \in Callers : pc[t] <= Len(Path) => NextCell(t) \notin flux
(* every call sees one generation of the tables: its answer is the sequential one *)
SequentialAnswer == \A t \in Callers : \A i, j \in DOMAIN seen[t] : seen[t][i] = seen[t][j]
=============================================================================
