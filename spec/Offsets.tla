------------------------------- MODULE Offsets -------------------------------
(***************************************************************************)
(* C12, mechanism layer.  update stores a method's offsets as                *)
(*     slots_strides = <<slot_0, ..., slot_(a-1), stride_1, ..., stride_(a-1)>>  *)
(* (install_gv: all slots, then all strides).  This module models the two     *)
(* readers of that array outside resolve(): the text emitter                 *)
(* generator::write_static_offsets and the debug-build consistency check of   *)
(* resolve_multi_next, each in the variant of the code (Fixed = TRUE) and in   *)
(* the variant it replaced (Fixed = FALSE, an interleaved reading), and       *)
(* states what must hold for every arity: the emitted slots and strides are,   *)
(* position by position, the installed ones, and the check compares each       *)
(* static number with the installed number of the same meaning.              *)
(***************************************************************************)
EXTENDS Integers, Sequences, TLC
CONSTANTS MaxArity, Fixed
VARIABLE arity
OInit == arity \in 1..MaxArity
OSpec == OInit /\ [][UNCHANGED arity]_arity
(* symbolic installed array: entry = <<"slot", i>> or <<"stride", i>> *)
Array(a) == [k \in 1..(2 * a - 1) |-> IF k <= a THEN <<"slot", k - 1>> ELSE <<"stride", k - a>>]
At(a, idx0) == Array(a)[idx0 + 1]                      \* C++ 0-based index
EmittedSlots(a) ==
    [i \in 0..(a - 1) |-> IF i = 0 THEN At(a, 0) ELSE IF Fixed THEN At(a, i) ELSE At(a, 2 * i - 1)]
EmittedStrides(a) ==
    [i \in 1..(a - 1) |-> IF Fixed THEN At(a, a + i - 1) ELSE At(a, 2 * i)]
EmitterOK ==
    /\ \A i \in 0..(arity - 1) : EmittedSlots(arity)[i] = <<"slot", i>>
    /\ \A i \in 1..(arity - 1) : EmittedStrides(arity)[i] = <<"stride", i>>
(* the consistency check at virtual argument v (1-based among the later ones) *)
CheckedSlot(a, v) == At(a, v)
CheckedStride(a, v) == IF Fixed THEN At(a, a + v - 1) ELSE At(a, 2 * v)
CheckOK ==
    \A v \in 1..(arity - 1) : CheckedSlot(arity, v) = <<"slot", v>> /\ CheckedStride(arity, v) = <<"stride", v>>
=============================================================================
