SPECIFICATION TSpecM
CONSTANTS K = 4
 MaxLists = 3
 MaxLen = 2
 MaxUndef = 1
 EMIT = FALSE
INVARIANTS Algebra EmitT
CHECK_DEADLOCK FALSE
