SPECIFICATION Spec
CONSTANTS N = 5
 MAXM = 0
 MODE = "any"
 EMIT = TRUE
INVARIANTS PresentationInvariant Emit
CHECK_DEADLOCK FALSE
