SPECIFICATION PSpec
CONSTANTS Callers = {1}
 CallerPol = "A"
 Upd = "B"
 Rounds = 1
 SharedKinds = {"svp"}
 CallerWrites = {}
INVARIANTS NoRace SequentialAnswer CallersCellsFrozen
CHECK_DEADLOCK FALSE
