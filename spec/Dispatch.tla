------------------------------ MODULE Dispatch ------------------------------
(***************************************************************************)
(* Declarative layer: what yomm2 must compute, stated without reference    *)
(* to any table, slot or algorithm.  Everything here is a transcription of *)
(* the documented overload-resolution rules; nothing is borrowed from the  *)
(* implementation.                                                         *)
(*                                                                         *)
(*   anc : function  class -> set of classes  (the class itself and all    *)
(*         its direct and indirect bases)                                  *)
(*   a definition is a record [d |-> id, vp |-> <<class, ...>>]            *)
(*   a call is described by the tuple t of dynamic classes of its virtual  *)
(*   arguments, in order.                                                  *)
(***************************************************************************)
EXTENDS Integers, Sequences, FiniteSets

NoDef     == -1      \* outcome: no applicable definition
Ambiguous == -2      \* outcome: applicable definitions, none most specific

ProperBase(anc, x, y) == x # y /\ x \in anc[y]            \* x is a proper base of y

IsApplicable(anc, x, t) == \A i \in DOMAIN t : x.vp[i] \in anc[t[i]]
Applicable(anc, D, t)   == {x \in D : IsApplicable(anc, x, t)}

(* a is more specific than b: at no virtual position a proper base of b's  *)
(* class, at one position at least a proper derived class.                 *)
MoreSpecific(anc, a, b) ==
    /\ \A i \in DOMAIN a.vp : ~ProperBase(anc, a.vp[i], b.vp[i])
    /\ \E i \in DOMAIN a.vp :  ProperBase(anc, b.vp[i], a.vp[i])

Winners(anc, A) == {x \in A : \A y \in A \ {x} : MoreSpecific(anc, x, y)}

Outcome(anc, D, t) ==
    LET A == Applicable(anc, D, t)
        W == Winners(anc, A)
    IN  IF A = {} THEN NoDef
        ELSE IF W = {} THEN Ambiguous
        ELSE (CHOOSE x \in W : TRUE).d

(* e is strictly more general than x: a base (or the same) everywhere,     *)
(* different somewhere.                                                    *)
StrictlyMoreGeneral(anc, e, x) ==
    /\ \A i \in DOMAIN x.vp : e.vp[i] \in anc[x.vp[i]]
    /\ \E i \in DOMAIN x.vp : e.vp[i] # x.vp[i]

NextTarget(anc, D, x) ==
    Outcome(anc, {e \in D : StrictlyMoreGeneral(anc, e, x)}, x.vp)

(* Classes acceptable where class c is expected *)
Cov(anc, Cs, c) == {x \in Cs : c \in anc[x]}

(* All tuples of classes from Cs acceptable to a method with parameters vp *)
RECURSIVE TuplesFrom(_, _, _, _)
TuplesFrom(anc, Cs, vp, i) ==
    IF i > Len(vp) THEN {<<>>}
    ELSE LET rest == TuplesFrom(anc, Cs, vp, i + 1)
         IN  {<<x>> \o r : x \in Cov(anc, Cs, vp[i]), r \in rest}
LegalTuples(anc, Cs, vp) == TuplesFrom(anc, Cs, vp, 1)

HasGap(anc, Cs, vp, D)       == \E t \in LegalTuples(anc, Cs, vp) : Applicable(anc, D, t) = {}
HasAmbiguity(anc, Cs, vp, D) == \E t \in LegalTuples(anc, Cs, vp) : Outcome(anc, D, t) = Ambiguous

(***************************************************************************)
(* Theorems about the oracle itself, checked by TLC on bounded universes    *)
(* (OracleMC.tla): they keep the oracle honest.                            *)
(***************************************************************************)
MoreSpecificIrreflexive(anc, D) == \A a \in D : ~MoreSpecific(anc, a, a)
MoreSpecificAsymmetric(anc, D)  == \A a, b \in D : MoreSpecific(anc, a, b) => ~MoreSpecific(anc, b, a)
AtMostOneWinner(anc, D, t)      == Cardinality(Winners(anc, Applicable(anc, D, t))) <= 1
WinnerIsApplicable(anc, D, t)   ==
    LET o == Outcome(anc, D, t) IN o >= 0 => \E x \in Applicable(anc, D, t) : x.d = o
NextIsMoreGeneral(anc, D)       ==
    \A x \in D : LET o == NextTarget(anc, D, x) IN
        o >= 0 => \E e \in D : e.d = o /\ StrictlyMoreGeneral(anc, e, x)
=============================================================================
