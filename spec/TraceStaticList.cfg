SPECIFICATION TSpec
CONSTANTS Node = {1, 2, 3, 4, 5, 6, 7, 8}
 MaxLen = 0
 EMIT = FALSE
POSTCONDITION Accepted
CHECK_DEADLOCK FALSE
