------------------------------- MODULE VptrMC -------------------------------
(***************************************************************************)
(* Bounded model of the virtual_ptr part of Yomm2.tla (C09): handles are     *)
(* created, copied and dropped while updates happen.  Invariants: a handle   *)
(* that the specification calls valid always designates a class the          *)
(* installed snapshot knows, so VpCall is well defined; a direct handle is    *)
(* never valid across an update; an indirect one stays valid for as long as   *)
(* its class stays registered.                                              *)
(***************************************************************************)
EXTENDS Yomm2

CONSTANTS MaxH, MaxSteps
VARIABLE steps
vvars == <<vars, steps>>

Rec(r, c, b) == [r |-> r, c |-> c, bases |-> b, abs |-> FALSE]
VInit ==
    /\ Init /\ steps = 0
Setup(p) ==
    /\ classes[p] = <<>>
    /\ classes' = [classes EXCEPT ![p] = <<Rec(1, 1, <<>>), Rec(2, 2, <<1>>), Rec(3, 3, <<2>>)>>]
    /\ methods' = [methods EXCEPT ![p] = <<[m |-> 1, vp |-> <<1>>]>>]
    /\ defs' = [defs EXCEPT ![p] = <<[m |-> 1, d |-> 0, vp |-> <<2>>]>>]
    /\ fresh' = [fresh EXCEPT ![p] = FALSE] /\ obs' = [k |-> "done"]
    /\ UNCHANGED <<inst, handler, vps, dead>>
Ind(p) == p = 1      \* policy 1 uses indirect v-table pointers, policy 0 direct ones
Step ==
    /\ steps < MaxSteps /\ steps' = steps + 1
    /\ \E p \in Policy :
        \/ Setup(p)
        \/ UpdateOKAnyReport(p)
        \/ classes[p] # <<>> /\ UnregisterClass(p, 3)
        \/ classes[p] # <<>> /\ RegisterClass(p, Rec(3, 3, <<2>>))
        \/ AddDefinition(p, 1, 1, <<3>>)
        \/ \E id \in 1..MaxH, st \in 1..3, dyn \in 1..3 : MakeVptr(p, id, st, dyn, id, Ind(p), "ref")
        \/ \E id \in 1..MaxH, st \in 1..3 : MakeVptrEarly(p, id, st, st, id, Ind(p), "ref")   \* exact type, before / between updates
        \/ \E id \in 1..MaxH, from \in DOMAIN vps : DeriveVptr(id, from)
        \/ \E id \in DOMAIN vps : DropVptr(id)
        \/ \E id \in DOMAIN vps : VpCall(p, 1, <<id>>)
VSpec == VInit /\ [][Step]_vvars

ValidMeansKnown ==
    \A id \in DOMAIN vps : VpValid(vps[id]) => vps[id].dyn \in inst[vps[id].p].cls
DirectNeverOutlivesUpdate ==
    \A id \in DOMAIN vps : (~vps[id].ind /\ vps[id].epoch # inst[vps[id].p].epoch) => ~VpValid(vps[id])
IndirectSurvives ==
    \A id \in DOMAIN vps :
        (vps[id].ind /\ inst[vps[id].p].ok /\ fresh[vps[id].p] /\ vps[id].dyn \in inst[vps[id].p].cls) => VpValid(vps[id])
(* early handles exist for indirect policies only, and are not valid before an update has installed their class *)
EarlyOnlyIndirect ==
    \A id \in DOMAIN vps : (~vps[id].ind) => vps[id].epoch > 0
(* a call through valid handles always has an outcome defined by the oracle *)
CallsDefined ==
    \A id \in DOMAIN vps : VpCallLegal(vps[id].p, 1, <<id>>) =>
        CallOutcome(vps[id].p, 1, <<vps[id].dyn>>) \in {-2, -1, 0, 1}
=============================================================================
