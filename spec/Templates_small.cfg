SPECIFICATION TSpecM
CONSTANTS K = 3
 MaxLists = 2
 MaxLen = 2
 MaxUndef = 2
 EMIT = TRUE
INVARIANTS Algebra EmitT
CHECK_DEADLOCK FALSE
