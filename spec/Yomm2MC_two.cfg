SPECIFICATION MCSpec
CONSTANTS Policy = {0, 1}
 MaxLen = 4
 NC = 3
 NM = 1
 ND = 1
 EMIT = TRUE
CONSTRAINT Bound
INVARIANTS TypeOK PathIndependent Emit
PROPERTY IsolationProp
CHECK_DEADLOCK FALSE
