SPECIFICATION FSpec
CONSTANTS Idents <- Idents3
 Depth = 3
 MaxNames = 2
 Broken = FALSE
 EMIT = TRUE
INVARIANTS WriterIsWellFormed EmitReq
CHECK_DEADLOCK FALSE
