"""Script construction: stimuli for the dyn harness.  Scripts contain inputs only --
never expected values."""
import itertools
import random

SHAPES = {
    1: ["V", "NV", "VN", "P", "W", "S"],
    2: ["VV", "VNV", "NVVN", "PP", "VP", "PNV", "WS"],
    3: ["VVV", "VNVNV", "PVP", "NVNVNV"],
    4: ["VVVV", "VNVVNV", "PVVP"],
}
# how many pool slots exist per shape (harness/dyn_runner.hpp build_pool)
SHAPE_KEYS = {"V": 6, "P": 2, "VV": 3, "VNV": 2, "VVV": 2}


def arity_of(shape):
    return len([ch for ch in shape if ch not in "Ns"])

ALL_POLICIES = ["fast", "chk", "vec", "map", "ind", "indvec", "indfast", "thr", "old", "prj", "prjmap",
                "dbg", "rel", "rem", "stdd", "stdr", "stdmap", "wide", "widemap", "small", "smallchk", "dfr", "dfrh"]
# policies whose ids are eager (not deferred)
EAGER_POLICIES = [p for p in ALL_POLICIES if p not in ("dfr", "dfrh")]
THROWING = [p for p in ALL_POLICIES]  # every policy supports a throwing handler


def anc_closure(edges, classes):
    """edges: iterable of (derived, base).  Returns dict c -> set of c and all its bases."""
    direct = {c: set() for c in classes}
    for d, b in edges:
        direct[d].add(b)
    anc = {}

    def up(c):
        if c in anc:
            return anc[c]
        s = {c}
        for b in direct[c]:
            s |= up(b)
        anc[c] = s
        return s
    for c in classes:
        up(c)
    return anc


class Script:
    def __init__(self, sid, bindings):
        self.sid = sid
        self.bindings = bindings  # list of lists of policy names
        self.lines = []
        self._r = 0

    def cls(self, c, bases, abstract=False, p=0, r=None):
        if r is None:
            self._r += 1
            r = self._r
        self.lines.append("c %d %d %d %d %d %s" % (p, r, c, 1 if abstract else 0, len(bases),
                                                     " ".join(map(str, bases))))
        return r

    def uncls(self, r, p=0):
        self.lines.append("uc %d %d" % (p, r))

    def method(self, m, shape, vp, p=0):
        self.lines.append("m %d %d %s %d %s" % (p, m, shape, len(vp), " ".join(map(str, vp))))

    def unmethod(self, m, p=0):
        self.lines.append("um %d %d" % (p, m))

    def defn(self, m, d, vp, p=0):
        self.lines.append("d %d %d %d %d %s" % (p, m, d, len(vp), " ".join(map(str, vp))))

    def undef(self, m, d, p=0):
        self.lines.append("ud %d %d %d" % (p, m, d))

    def handler(self, kind, p=0):
        self.lines.append("h %d %s" % (p, kind))

    def update(self, p=0):
        self.lines.append("u %d" % p)

    def table(self, m, p=0):
        self.lines.append("T %d %d" % (p, m))

    def ctable(self, m, p=0):
        self.lines.append("CT %d %d" % (p, m))

    def nexts(self, m, p=0):
        self.lines.append("X %d %d" % (p, m))

    def call(self, m, t, p=0):
        self.lines.append("C %d %d %d %s" % (p, m, len(t), " ".join(map(str, t))))

    def resolve(self, m, t, p=0):
        self.lines.append("R %d %d %d %s" % (p, m, len(t), " ".join(map(str, t))))

    def layout(self, p=0):
        self.lines.append("L %d" % p)

    def reads(self, m, p=0):
        self.lines.append("RT %d %d" % (p, m))

    def node(self, k, c, p=0):
        self.lines.append("N %d %d %d" % (p, k, c))

    def vmake(self, h, k, route, c, p=0):
        self.lines.append("VN %d %s %d %d %d" % (p, route, h, k, c))

    def vderive(self, h, frm, route, k, p=0):
        self.lines.append("VD %d %s %d %d %d" % (p, route, h, frm, k))

    def vdrop(self, h, p=0):
        self.lines.append("VX %d %d" % (p, h))

    def vget(self, h, p=0):
        self.lines.append("VG %d %d" % (p, h))

    def vcall(self, m, hs, p=0):
        self.lines.append("VC %d %d %d %s" % (p, m, len(hs), " ".join(map(str, hs))))

    def write_offsets(self, p=0):
        self.lines.append("SO %d" % p)

    def load_offsets(self, m, which=-1, idx=0, delta=0, p=0):
        self.lines.append("SL %d %d %d %d %d" % (p, m, which, idx, delta))

    def encode_decode(self, p=0):
        self.lines.append("EN %d" % p)

    def observe_all(self, p=0):
        self.lines.append("A %d" % p)

    def raw(self, line):
        self.lines.append(line)

    def text(self):
        out = ["S %s" % self.sid]
        for b in self.bindings:
            out.append("B " + " ".join(b))
        out += self.lines
        out.append("E")
        return "\n".join(out) + "\n"


def shape_for(arity, k):
    s = SHAPES[arity]
    return s[k % len(s)]


def presentation(style, classes, edges, rng):
    """How the inheritance graph is presented to the library: list of (class, listed bases).
    Every direct edge appears in at least one record (precondition of C08)."""
    anc = anc_closure(edges, classes)
    direct = {c: sorted(b for d, b in edges if d == c) for c in classes}
    recs = []
    if style == "complete":      # use_classes<...>: every class once with all its bases
        for c in classes:
            recs.append((c, sorted(anc[c] - {c})))
    elif style == "complete+self":  # what use_classes really emits: the class itself too
        for c in classes:
            recs.append((c, sorted(anc[c])))
    elif style == "direct":      # documented incremental style: class + direct bases
        for c in classes:
            recs.append((c, direct[c]))
    elif style == "random":      # any superset of the direct bases within the transitive bases,
        for c in classes:        # with/without self, duplicates, possibly split over several records
            extra = [b for b in sorted(anc[c] - {c}) if b not in direct[c] and rng.random() < 0.4]
            listed = direct[c] + extra
            if rng.random() < 0.3:
                listed = listed + [c]
            if listed and rng.random() < 0.3:
                listed = listed + [rng.choice(listed)]
            rng.shuffle(listed)
            if len(listed) >= 2 and rng.random() < 0.4:
                k = rng.randrange(1, len(listed))
                recs.append((c, listed[:k]))
                recs.append((c, listed[k:]))
            else:
                recs.append((c, listed))
            if rng.random() < 0.15:
                recs.append((c, []))
        rng.shuffle(recs)
    else:
        raise ValueError(style)
    return recs


def registry_script(sid, bindings, classes, edges, methods, defs, abstract=(), style="complete",
                    rng=None, observe=("T", "CT", "X"), order=None):
    """methods: list of (m, shape, vp); defs: list of (m, d, vp).
    order: optional permutation seed: shuffle registration order of classes, methods, defs."""
    rng = rng or random.Random(0)
    s = Script(sid, bindings)
    recs = presentation(style, classes, edges, rng)
    methods = list(methods)
    defs = list(defs)
    if order is not None:
        orng = random.Random(order)
        orng.shuffle(recs)
        orng.shuffle(methods)
        orng.shuffle(defs)
        # interleave: methods must precede their definitions (a definition is attached to its method)
    for c, bases in recs:
        s.cls(c, bases, abstract=(c in abstract))
    for m, shape, vp in methods:
        s.method(m, shape, vp)
    for m, d, vp in defs:
        s.defn(m, d, vp)
    s.update()
    if "L" in observe:
        s.layout()
    for m, shape, vp in methods:
        for ob in observe:
            if ob == "RT":
                s.reads(m)
            if ob == "T":
                s.table(m)
            elif ob == "CT":
                s.ctable(m)
            elif ob == "X":
                s.nexts(m)
    return s


# ---------------------------------------------------------------------------
# random registries (V binding)

def random_dag(rng, n, kind=None):
    """Random inheritance graph over classes 1..n; edges (derived, base) with derived > base."""
    kind = kind or rng.choice(["tree", "forest", "diamonds", "dense", "wide"])
    edges = set()
    for c in range(2, n + 1):
        if kind == "tree":
            edges.add((c, rng.randrange(1, c)))
        elif kind == "forest":
            if rng.random() < 0.8:
                edges.add((c, rng.randrange(1, c)))
        elif kind == "diamonds":
            k = 1 if rng.random() < 0.5 else 2
            for b in rng.sample(range(1, c), min(k, c - 1)):
                edges.add((c, b))
        elif kind == "dense":
            for b in range(1, c):
                if rng.random() < 0.4:
                    edges.add((c, b))
        elif kind == "wide":
            k = rng.randrange(0, min(4, c - 1) + 1)
            for b in rng.sample(range(1, c), k):
                edges.add((c, b))
    # transitive reduction (keep only direct edges)
    classes = list(range(1, n + 1))
    anc = anc_closure(edges, classes)
    red = set()
    for d, b in edges:
        if not any(b in anc[o] and o != b for (dd, o) in edges if dd == d and o != b):
            red.add((d, b))
    return classes, sorted(red), kind


def random_registry(rng, n, nmethods, max_arity, max_defs, shapes=None):
    classes, edges, kind = random_dag(rng, n)
    anc = anc_closure(edges, classes)
    cov = {c: [x for x in classes if c in anc[x]] for c in classes}
    methods, defs = [], []
    used = {}
    for m in range(1, nmethods + 1):
        ar = rng.randrange(1, max_arity + 1)
        cands = [s for s in SHAPES[ar] if used.get(s, 0) < SHAPE_KEYS.get(s, 1)]
        if shapes:
            cands = [s for s in cands if s in shapes] or cands
        if not cands:
            continue
        shape = rng.choice(cands)
        used[shape] = used.get(shape, 0) + 1
        vp = [rng.choice(classes) for _ in range(ar)]
        methods.append((m, shape, vp))
        nd = rng.randrange(0, max_defs + 1)
        seen = set()
        for d in range(nd):
            t = tuple(rng.choice(cov[v]) for v in vp)
            if t in seen and rng.random() < 0.9:
                continue
            seen.add(t)
            defs.append((m, len([x for x in defs if x[0] == m]), list(t)))
    abstract = {c for c in classes if rng.random() < 0.2}
    return classes, edges, methods, defs, abstract, kind


def history_script(sid, bindings, hist, npol=1, observe_every_step=False, shape_k=0, layout_too=False):
    """hist: list of ops as printed by Yomm2MC ([op, p, x]).  After every update (or after every
    step, for isolation) everything observable is observed on every policy."""
    s = Script(sid, bindings)
    declared = {}
    for h in hist:
        op, p, x = h["op"], h["p"], h["x"]
        if op == "m":
            declared.setdefault(p, set()).add(x["m"])
        elif op == "um":
            declared.setdefault(p, set()).discard(x["m"])
        if op == "c":
            s.cls(x["c"], list(x["bases"]), abstract=x["abs"], p=p, r=x["r"])
        elif op == "uc":
            s.uncls(x["r"], p=p)
        elif op == "m":
            s.method(x["m"], shape_for(len(x["vp"]), shape_k + x["m"]), list(x["vp"]), p=p)
        elif op == "um":
            s.unmethod(x["m"], p=p)
        elif op == "d":
            s.defn(x["m"], x["d"], list(x["vp"]), p=p)
        elif op == "ud":
            s.undef(x["m"], x["d"], p=p)
        elif op == "u":
            s.update(p=p)
        elif op == "h":
            s.handler(x["kind"], p=p)
        if observe_every_step or op == "u":
            for q in range(npol):
                s.observe_all(p=q)
                if layout_too and op == "u":     # C04: the installed layout and the addresses the calls read (hook H2)
                    s.layout(p=q)
                    for m in sorted(declared.get(q, ())):
                        s.reads(m, p=q)
    return s
