"""Per-property checks.  Each returns an exit code: 0 held, 1 violation(s) not listed as known."""
import itertools
import json
import os
import random
import time

import common as C
import family as F
import scripts as S

LEVEL = "model_checking"

ASSUME_DYN = [
    "dyn harness: registration records (class_info, method_info, definition_info) are built by hand at run time "
    "instead of by the template front end; update, resolve, operator(), virtual_ptr, policies and handlers are the library's own code",
    "TLC 1.8.0 evaluates the TLA+ operators correctly; the oracle operators of spec/Dispatch.tla are a faithful transcription of the property statement",
    "objects of abstract classes are passed too (the dyn harness can create them); the statement quantifies over dynamic classes",
]

UNIVERSES_QUICK = [("GenReg_N4A1D3.cfg", 4, 1), ("GenReg_N4A2D2.cfg", 4, 2), ("GenReg_N3A3D2.cfg", 3, 3)]
UNIVERSES_THOROUGH = UNIVERSES_QUICK + [("GenReg_N5A1D3.cfg", 5, 1), ("GenReg_N4A2D3.cfg", 4, 2), ("GenReg_N5A2D2.cfg", 5, 2),
                                        ("GenReg_N3A3D3.cfg", 3, 3), ("GenReg_N3A4D2.cfg", 3, 4)]


def edges_of(reg):
    return sorted((e[0], e[1]) for e in reg["edges"])


def scripts_from_universe(regs, n, arity, rng, policies, tagprefix, observe, style="complete", noise=True,
                          abstract_p=0.15, orders=None, shapes=None):
    """One script (or several, one per registration order) per registry of a TLC-emitted universe."""
    scripts = []
    classes = list(range(1, n + 1))
    for i, reg in enumerate(regs):
        shape = S.shape_for(arity, i) if not shapes else shapes[i % len(shapes)]
        methods = [(1, shape, list(reg["mvp"]))]
        defs = [(1, d, list(vp)) for d, vp in enumerate(reg["defs"])]
        # a noise uni-method on a random class perturbs slot allocation without changing the answer
        if noise and rng.random() < 0.5:
            methods.append((2, "V" if shape != "V" else "NV", [rng.choice(classes)]))
        abstract = {c for c in classes if rng.random() < abstract_p}
        olist = [None] if orders is None else orders(reg, rng)
        for k, o in enumerate(olist):
            sid = "%s-%d" % (tagprefix, i) if o is None else "%s-%d.o%d" % (tagprefix, i, k)
            st = style(rng) if callable(style) else style
            scripts.append(S.registry_script(sid, [[p] for p in policies], classes, edges_of(reg), methods, defs,
                                             abstract=abstract, style=st, rng=random.Random(rng.random()),
                                             observe=observe, order=o))
    return scripts


def random_scripts(rng, count, policies, observe, style="complete", max_n=12, orders=1, max_defs=6, abstract_p=None):
    scs = []
    for i in range(count):
        n = rng.randrange(3, max_n + 1)
        classes, edges, methods, defs, abstract, kind = S.random_registry(rng, n, rng.randrange(1, 4), 3 if n > 8 else 4, max_defs)
        if not methods:
            continue
        if abstract_p is not None:
            abstract = {c for c in classes if rng.random() < abstract_p}
        pres_seed = rng.random()
        for k in range(orders):
            st = style(rng) if callable(style) else style
            scs.append(S.registry_script("rnd-%d-%s%s" % (i, kind, "" if orders == 1 else ".o%d" % k), [[p] for p in policies],
                                         classes, edges, methods, defs, abstract=abstract, style=st,
                                         rng=random.Random(pres_seed), observe=observe,
                                         order=None if orders == 1 and k == 0 else rng.randrange(1 << 30)))
    return scs


def mutate_first(kind, fn):
    """Build a trace corruption: apply fn(event) to the first event of the given kind."""
    def mut(lines):
        for i, ln in enumerate(lines):
            if ln.startswith('{"e":"%s"' % kind):
                ev = json.loads(ln)
                if fn(ev):
                    lines[i] = json.dumps(ev, separators=(",", ":")) + "\n"
                    return lines
        return lines
    return mut


def drop_first(kind):
    def mut(lines):
        for i, ln in enumerate(lines):
            if ln.startswith('{"e":"%s"' % kind):
                return lines[:i] + lines[i + 1:]
        return lines
    return mut


def flip_table_row(ev):
    if ev["rows"]:
        ev["rows"][0][1] = 0 if ev["rows"][0][1] != 0 else -1
        return True
    return False


# ---------------------------------------------------------------------------
def check_C01(tier, seed):
    TCFG = "TraceYomm2_dispatch.cfg"
    t0 = time.time()
    out = F.Outcome("C01")
    rng = random.Random(seed)
    exe = C.build_dyn()
    policies = S.EAGER_POLICIES
    universes = UNIVERSES_QUICK if tier == "quick" else UNIVERSES_THOROUGH
    # mechanism layer => declarative layer: the table construction and the call-time walk reach Outcome()
    for mcfg in ["CompilerTables_N4A1D3.cfg", "CompilerTables_N3A2D3.cfg"] + \
            (["CompilerTables_N4A2D2.cfg", "CompilerTables_N3A3D2.cfg", "CompilerTables_D2.cfg", "CompilerTables_N4A2D3.cfg"] if tier == "thorough" else []):
        F.model_check(out, "CompilerTables.tla", mcfg)
    if tier == "thorough":
        F.model_check(out, "CompilerTables.tla", "CompilerTables_D2inc.cfg", expect_violation=True)
    # unbounded: irreflexivity / asymmetry of MoreSpecific and uniqueness of the winner, by the TLA+ proof system
    F.tlaps_check(out, "DispatchProofs.tla")
    for cfg, n, ar in universes:
        regs = F.gen_registries(cfg, out)
        scs = scripts_from_universe(regs, n, ar, rng, policies, cfg.replace(".cfg", ""), ("T", "CT"))
        F.execute_and_validate("C01", exe, scs, out, "c01-" + cfg, TCFG)
    # the 5-class lattice on which 'more specific' is not transitive: every definition set <= 3
    regs = F.gen_registries("GenRegD2.cfg", out)
    d2 = scripts_from_universe(regs, 5, 2, rng, ["fast", "vec", "map", "ind"] if tier == "quick" else policies, "GenRegD2", ("T", "CT"),
                               orders=lambda reg, r: [None, r.randrange(1 << 30)])
    F.execute_and_validate("C01", exe, d2, out, "c01-d2", TCFG)
    scs = random_scripts(rng, 300 if tier == "quick" else 6000, policies, ("T", "CT"))
    F.execute_and_validate("C01", exe, scs, out, "c01-rnd", TCFG)
    # the same question when the arguments are virtual_ptr handles built by every route (exact static type, base
    # reference to a derived object, derived static type converted on the fly, final, shared), under direct and indirect policies
    hs = [vptr_script(rng, "c01-vp-%d" % i, VP_POLICIES) for i in range(150 if tier == "quick" else 3000)]
    F.execute_and_validate("C01", exe, hs, out, "c01-vp", TCFG)
    # many definitions in one method (beyond the width of a machine word), real classes through the front end
    wide_programs("C01", rng, out, 2 if tier == "quick" else 12, tier)
    # the stock debug configuration with its trace facet switched on (YOMM2_TRACE=1): tracing must not change anything
    tr = []
    for s in scs[:150 if tier == "quick" else 1500]:
        t = S.Script(s.sid + ".trace", [["dbg"], ["stdd"], ["rem"]])
        t.lines = s.lines
        tr.append(t)
    F.RUN_ENV["YOMM2_TRACE"] = "1"
    try:
        F.execute_and_validate("C01", exe, tr, out, "c01-trace", TCFG)
    finally:
        F.RUN_ENV.pop("YOMM2_TRACE", None)
    if scs:
        F.selftest_corruption(exe, scs[0], out, mutate_first("table", flip_table_row), "one outcome of a resolve table altered", TCFG)
        F.selftest_corruption(exe, scs[0], out, drop_first("def"), "one definition registration event dropped", TCFG)
    return F.report("C01", tier, seed, out, t0, LEVEL,
                    rule="a case = one registry (inheritance graph, methods with signature shapes, definitions) executed under one "
                         "policy configuration, all legal argument tuples resolved and called; distinct_nontrivial = distinct registries",
                    assumptions=ASSUME_DYN,
                    extra_cov={"policies": policies, "universes": [u[0] for u in universes], "random_registries": len(scs)})


# ---------------------------------------------------------------------------
def check_C02(tier, seed):
    """Unresolvable calls: error record content, thrown exceptions leave dispatch intact, a returning handler aborts."""
    TCFG = "TraceYomm2_err.cfg"
    t0 = time.time()
    out = F.Outcome("C02")
    rng = random.Random(seed)
    exe = C.build_dyn()
    policies = S.EAGER_POLICIES   # vectored_error (std::function), backward-compatible call_error (old, dbg, rel, stdd, stdr), throw_error (thr)
    universes = UNIVERSES_QUICK if tier == "quick" else UNIVERSES_THOROUGH
    nregs = 0
    for cfg, n, ar in universes:
        regs = F.gen_registries(cfg, out)
        # call table (errors thrown), then resolve table and call table again: later calls still dispatch
        scs = scripts_from_universe(regs, n, ar, rng, policies, cfg.replace(".cfg", ""), ("CT", "T", "CT"))
        F.execute_and_validate("C02", exe, scs, out, "c02-" + cfg, TCFG)
        # handler that returns: the process must abort.  One script per sampled (registry, tuple).
        ret_policies = [p for p in policies if p != "thr"]
        sample = rng.sample(range(len(regs)), min(len(regs), 250 if tier == "quick" else 2000))
        rs = []
        for i in sample:
            reg = regs[i]
            anc = S.anc_closure(edges_of(reg), list(range(1, n + 1)))
            t = [rng.choice([c for c in range(1, n + 1) if v in anc[c]]) for v in reg["mvp"]]
            sc = scripts_from_universe([reg], n, ar, rng, [rng.choice(ret_policies)], "%s-ret%d" % (cfg.replace(".cfg", ""), i), (),
                                       noise=False, shapes=[S.shape_for(ar, i)])[0]
            sc.handler("return")
            sc.call(1, t)
            sc.call(1, t)   # never reached if the first call is an error: the process is gone
            rs.append(sc)
        F.execute_and_validate("C02", exe, rs, out, "c02-ret-" + cfg, TCFG)
    scs = random_scripts(rng, 200 if tier == "quick" else 4000, policies, ("CT", "T"))
    F.execute_and_validate("C02", exe, scs, out, "c02-rnd", TCFG)
    # error records through the real front end: real classes, std rtti type ids, handler installed with set_error_handler
    lat = F.gen_registries("GenLat_P4any.cfg", out, module="GenLat.tla")
    real_class_programs("C02", lat, rng, out, 8 if tier == "quick" else 80, tier)
    # the same question in a process whose dispatch data comes from the generated tables.hpp (update never runs): error cells
    # of uni- and multi-methods and of next must still tell "no definition" from "ambiguous", with the right record
    real_class_programs("C02", lat, rng, out, 2 if tier == "quick" else 20, tier, per=6, staged=(4,))

    def break_types(ev):
        for row in ev["rows"]:
            if row[1] < 0 and row[2][2]:
                row[2][2][0] = 63
                return True
        return False

    def break_then(ev):
        if ev.get("then") == "aborted":
            ev["then"] = "thrown"
            return True
        return False
    errsc = [s for s in scs]
    done = 0
    for s in errsc[:40]:
        if F.selftest_corruption(exe, s, out, mutate_first("ctable", break_types), "type id in a recorded error record altered", TCFG) is not None:
            done += 1
            break
    aborted = out.action_counts.get("died", 0)
    if aborted == 0:
        raise C.ToolFailure("vacuous: no handler-returns execution reached an error")
    return F.report("C02", tier, seed, out, t0, LEVEL,
                    rule="a case = one registry executed under one error-handling configuration: every legal tuple called, error records "
                         "compared with ErrorRecord(status, arity, types of the virtual arguments); plus sampled (registry, tuple) calls under a "
                         "handler that returns (process must die with SIGABRT); distinct_nontrivial = distinct scripts",
                    assumptions=ASSUME_DYN,
                    extra_cov={"policies": policies, "aborted_executions": aborted,
                               "universes": [u[0] for u in universes]})


# ---------------------------------------------------------------------------
def check_C03(tier, seed):
    TCFG = "TraceYomm2_dispatch.cfg"
    t0 = time.time()
    out = F.Outcome("C03")
    rng = random.Random(seed)
    exe = C.build_dyn()
    policies = ["fast", "chk", "vec", "map", "ind", "old", "prj", "stdd", "stdmap"]
    universes = [("GenReg_N4A1D3.cfg", 4, 1), ("GenReg_N4A2D3.cfg", 4, 2), ("GenReg_N3A3D3.cfg", 3, 3)]
    if tier == "thorough":
        universes += [("GenReg_N5A1D3.cfg", 5, 1), ("GenReg_N5A2D2.cfg", 5, 2), ("GenReg_N3A4D2.cfg", 3, 4)]
    for cfg, n, ar in universes:
        regs = F.gen_registries(cfg, out)
        scs = scripts_from_universe(regs, n, ar, rng, policies, cfg.replace(".cfg", ""), ("X",))
        F.execute_and_validate("C03", exe, scs, out, "c03-" + cfg, TCFG)
    scs = random_scripts(rng, 300 if tier == "quick" else 6000, policies, ("X",), max_defs=9)
    # histories: next is recomputed by every update
    hs = []
    for i in range(150 if tier == "quick" else 3000):
        n = rng.randrange(3, 9)
        classes, edges, methods, defs, abstract, kind = S.random_registry(rng, n, 2, 3, 8)
        if not methods or not defs:
            continue
        sc = S.Script("hist-%d-%s" % (i, kind), [[p] for p in policies])
        for c, bases in S.presentation("complete", classes, edges, rng):
            sc.cls(c, bases)
        for m, shape, vp in methods:
            sc.method(m, shape, vp)
        live = []
        pending = list(defs)
        rng.shuffle(pending)
        for step in range(rng.randrange(2, 6)):
            for _ in range(rng.randrange(1, 4)):
                if pending and (not live or rng.random() < 0.65):
                    d = pending.pop()
                    sc.defn(*d)
                    live.append(d)
                elif live:
                    d = live.pop(rng.randrange(len(live)))
                    sc.undef(d[0], d[1])
                    pending.append(d)
            sc.update()
            for m, shape, vp in methods:
                sc.nexts(m)
        hs.append(sc)
    F.execute_and_validate("C03", exe, scs + hs, out, "c03-rnd", TCFG)

    # next through the macro front end (the `next` variable of define_method) on real class hierarchies
    lat = F.gen_registries("GenLat_P4any.cfg", out, module="GenLat.tla")
    real_class_programs("C03", lat, rng, out, 10 if tier == "quick" else 100, tier)

    def flip_next(ev):
        if ev["rows"]:
            ev["rows"][0][1] = -1 if ev["rows"][0][1] != -1 else -2
            return True
        return False
    for s in scs[:30]:
        if F.selftest_corruption(exe, s, out, mutate_first("next", flip_next), "one recorded next target altered", TCFG) is not None:
            break
    return F.report("C03", tier, seed, out, t0, LEVEL,
                    rule="a case = one registry (or registration history) under one policy: after each update the next slot of every "
                         "definition is observed by pointer identity and by calling through it with objects of exactly the definition's classes; "
                         "distinct_nontrivial = distinct scripts",
                    assumptions=ASSUME_DYN, extra_cov={"policies": policies, "histories": len(hs)})


# ---------------------------------------------------------------------------
def all_orders(limit):
    def f(reg, rng):
        # an order is a seed for the shuffles of class records, methods and definitions
        return [None] + [rng.randrange(1 << 30) for _ in range(limit - 1)]
    return f


def check_C06(tier, seed):
    TCFG = "TraceYomm2_dispatch.cfg"
    t0 = time.time()
    out = F.Outcome("C06")
    rng = random.Random(seed)
    exe = C.build_dyn()
    policies = ["fast", "chk", "vec", "map", "ind", "prj", "stdr"]
    universes = [("GenReg_N4A1D3.cfg", 4, 1, 4), ("GenReg_N4A2D2.cfg", 4, 2, 3), ("GenReg_N3A3D2.cfg", 3, 3, 2)]
    if tier == "thorough":
        universes = [("GenReg_N4A1D3.cfg", 4, 1, 12), ("GenReg_N4A2D3.cfg", 4, 2, 8), ("GenReg_N3A3D3.cfg", 3, 3, 8),
                     ("GenReg_N5A2D2.cfg", 5, 2, 4), ("GenReg_N5A1D3.cfg", 5, 1, 4)]
    # mechanism layer, every catalog order of the definitions: the walk reaches the order-free Outcome()
    F.model_check(out, "CompilerTables.tla", "CompilerTables_N3A2D3.cfg")
    F.model_check(out, "CompilerTables.tla", "CompilerTables_D2inc.cfg", expect_violation=True)
    if tier == "thorough":
        F.model_check(out, "CompilerTables.tla", "CompilerTables_D2.cfg")
    for cfg, n, ar, k in universes:
        regs = F.gen_registries(cfg, out)
        scs = scripts_from_universe(regs, n, ar, rng, policies, cfg.replace(".cfg", ""), ("T", "X"), orders=all_orders(k))
        F.execute_and_validate("C06", exe, scs, out, "c06-" + cfg, TCFG)
    # the 5-class lattice on which 'more specific' is not transitive: every definition set <= 3, every order
    regs = F.gen_registries("GenRegD2.cfg", out)
    scs = []
    for i, reg in enumerate(regs):
        defs0 = [(1, d, list(vp)) for d, vp in enumerate(reg["defs"])]
        for k, perm in enumerate(itertools.permutations(defs0)):
            sc = S.registry_script("d2lat-%d.p%d" % (i, k), [[p] for p in ["fast", "vec", "map"]], list(range(1, 6)), edges_of(reg),
                                   [(1, "VV", list(reg["mvp"]))], list(perm), observe=("T", "X"))
            scs.append(sc)
    F.execute_and_validate("C06", exe, scs, out, "c06-d2", TCFG)
    scs = random_scripts(rng, 100 if tier == "quick" else 1500, policies, ("T", "X"), orders=6 if tier == "quick" else 20, max_defs=8)
    F.execute_and_validate("C06", exe, scs, out, "c06-rnd", TCFG)
    # the order in which the registration objects of a real program are constructed is the order of appearance in the translation
    # unit: generated programs shuffle their definitions and put the class registrations before or after methods and definitions
    lat = F.gen_registries("GenLat_P4any.cfg", out, module="GenLat.tla")
    real_class_programs("C06", lat, rng, out, 8 if tier == "quick" else 80, tier)
    if scs:
        F.selftest_corruption(exe, scs[1], out, mutate_first("table", flip_table_row), "one outcome altered in a permuted registration", TCFG)
    return F.report("C06", tier, seed, out, t0, LEVEL,
                    rule="a case = one registration order (shuffle of class records, methods, definitions) of one registry under one policy; "
                         "outcome tables and next targets are validated against the order-free oracle, so any two orders of a registry agree; "
                         "distinct_nontrivial = distinct (registry, order) scripts",
                    assumptions=ASSUME_DYN, extra_cov={"policies": policies})


# ---------------------------------------------------------------------------
def check_C17(tier, seed):
    TCFG = "TraceYomm2_report.cfg"
    t0 = time.time()
    out = F.Outcome("C17")
    rng = random.Random(seed)
    exe = C.build_dyn()
    policies = ["fast", "vec", "map", "stdd"]
    universes = UNIVERSES_QUICK + [("GenReg_N4A2D3.cfg", 4, 2)] if tier == "quick" else UNIVERSES_THOROUGH
    for cfg, n, ar in universes:
        regs = F.gen_registries(cfg, out)
        if tier == "quick" and cfg == "GenReg_N4A2D3.cfg":
            # three definitions of a two-parameter method: the smallest universe in which two cells can show the same conflict
            regs = rng.sample(regs, min(len(regs), 5000))
            out.notes.append("%s: 5000 registries sampled (quick)" % cfg)
        scs = []
        classes = list(range(1, n + 1))
        for i, reg in enumerate(regs):
            # every assignment of abstract flags for small universes, a sample otherwise
            if n <= 3 or (tier == "thorough" and len(regs) * (1 << n) <= 400000):
                masks = range(1 << n)
            elif tier == "thorough":
                masks = sorted(set([0, (1 << n) - 1] + [rng.randrange(1 << n) for _ in range(8)]))
            else:
                masks = sorted(set([0] + [rng.randrange(1 << n) for _ in range(3)]))
            for mask in masks:
                abstract = {c for c in classes if mask >> (c - 1) & 1}
                methods = [(1, S.shape_for(ar, i), list(reg["mvp"]))]
                if rng.random() < 0.4:
                    methods.append((2, "VV" if ar != 2 else "VVV", [rng.choice(classes) for _ in range(2 if ar != 2 else 3)]))
                defs = [(1, d, list(vp)) for d, vp in enumerate(reg["defs"])]
                scs.append(S.registry_script("%s-%d.a%d" % (cfg.replace(".cfg", ""), i, mask), [[p] for p in policies], classes,
                                             edges_of(reg), methods, defs, abstract=abstract, observe=()))
        F.execute_and_validate("C17", exe, scs, out, "c17-" + cfg, TCFG)
    scs = random_scripts(rng, 900 if tier == "quick" else 8000, policies, (), max_n=9, abstract_p=0.35)
    F.execute_and_validate("C17", exe, scs, out, "c17-rnd", TCFG)
    # reports of real programs: really abstract classes (is_abstract from std::is_abstract_v)
    lat = F.gen_registries("GenLat_P4any.cfg", out, module="GenLat.tla")
    real_class_programs("C17", lat, rng, out, 8 if tier == "quick" else 80, tier)

    def flip_report(ev):
        if ev.get("res") == "ok":
            ev["rep"]["not_implemented"] = 0 if ev["rep"]["not_implemented"] else 1
            return True
        return False

    def flip_cells(ev):
        if ev.get("res") == "ok" and ev["rep"]["cells"]:
            ev["rep"]["cells"] += 1
            return True
        return False
    if scs:
        F.selftest_corruption(exe, scs[0], out, mutate_first("update", flip_report), "not_implemented flag of a recorded report flipped", TCFG)
        for s in scs[:50]:
            if F.selftest_corruption(exe, s, out, mutate_first("update", flip_cells), "cell count of a recorded report altered", TCFG) is not None:
                break
    return F.report("C17", tier, seed, out, t0, LEVEL,
                    rule="a case = one registry with one assignment of abstract flags, updated under one policy; the returned report is "
                         "compared with HasGap / HasAmbiguity over all tuples and over concrete-only tuples, and cells with the number of "
                         "multi-method cells the compiler object holds; distinct_nontrivial = distinct scripts",
                    assumptions=ASSUME_DYN, extra_cov={"policies": policies})


# ---------------------------------------------------------------------------
def lat_script(reg, n, sid, policies, rng, probes, split, multi, observe, order=None):
    """Script from a GenLat registry: classes presented as TLC chose (optionally split over several
    records / duplicated / reordered), one-parameter probe methods with one definition each, and
    optionally a multi-method with random definitions."""
    classes = list(range(1, n + 1))
    edges = edges_of(reg)
    anc = S.anc_closure(edges, classes)
    listed = {c: list(reg["listed"][c - 1]) for c in classes}
    s = S.Script(sid, [[p] for p in policies])
    recs = []
    for c in classes:
        lst = list(listed[c])
        if split:
            if lst and rng.random() < 0.3:
                lst = lst + [rng.choice(lst)]          # duplicated entry
            rng.shuffle(lst)
            if len(lst) >= 2 and rng.random() < 0.5:
                k = rng.randrange(1, len(lst))
                recs.append((c, lst[:k]))
                recs.append((c, lst[k:]))               # several registration records per class
            else:
                recs.append((c, lst))
            if rng.random() < 0.2:
                recs.append((c, []))
        else:
            recs.append((c, lst))
    if split:
        rng.shuffle(recs)
    methods, defs = [], []
    pc = sorted(reg["mset"]) if probes == "mset" else classes
    for c in pc:
        methods.append((c, "V", [c]))
        defs.append((c, 0, [c]))
    if multi and rng.random() < 0.7:
        ar = rng.choice([2, 2, 3])
        shape = {2: rng.choice(["VV", "VNV", "PP"]), 3: rng.choice(["VVV", "VNVNV"])}[ar]
        vp = [rng.choice(classes) for _ in range(ar)]
        m = n + 1
        methods.append((m, shape, vp))
        cov = {v: [x for x in classes if v in anc[x]] for v in classes}
        for d in range(rng.randrange(0, 4)):
            defs.append((m, d, [rng.choice(cov[v]) for v in vp]))
    if order is not None:
        orng = random.Random(order)
        orng.shuffle(recs)
        orng.shuffle(methods)
        orng.shuffle(defs)
    for cc, bases in recs:
        s.cls(cc, bases)
    for m, shape, vp in methods:
        s.method(m, shape, vp)
    for m, d, vp in defs:
        s.defn(m, d, vp)
    s.update()
    if "L" in observe:
        s.layout()
    for m, shape, vp in methods:
        for ob in observe:
            if ob == "RT":
                s.reads(m)
            elif ob == "T":
                s.table(m)
            elif ob == "X":
                s.nexts(m)
            elif ob == "CT":
                s.ctable(m)
    return s


def break_layout(ev):
    # make two classes share their v-table pointer: some cell becomes shared or out of place
    if len(ev["vptr"]) >= 2:
        ev["vptr"][1][1] = ev["vptr"][0][1]
        return True
    return False


def break_read(ev):
    for row in ev["rows"]:
        if row[1]:
            row[1][0][1] += 1
            return True
    return False


def check_C04(tier, seed):
    TCFG = "TraceYomm2_dispatch.cfg"
    t0 = time.time()
    out = F.Outcome("C04")
    rng = random.Random(seed)
    policies = ["vec", "fast", "map", "ind"]
    exe = C.build_dyn()
    universes = [("GenLat_N4direct.cfg", 4), ("GenLat_N4complete.cfg", 4), ("GenLat_N5direct.cfg", 5)]
    # mechanism layer: slot allocation as transcribed from compiler.hpp keeps cells disjoint (closed base lists);
    # the as-registered variant (before the repair of D4) must exhibit the collision
    F.model_check(out, "CompilerSlots.tla", "CompilerSlots_N4.cfg")
    F.model_check(out, "CompilerSlots.tla", "CompilerSlots_N4asListed.cfg", expect_violation=True)
    if tier == "thorough":
        F.model_check(out, "CompilerSlots.tla", "CompilerSlots_N5.cfg")
        universes += [("GenLat_N5complete.cfg", 5), ("GenLat_N6direct.cfg", 6), ("GenLat_N6complete.cfg", 6)]
    allscs = []
    for cfg, n in universes:
        regs = F.gen_registries(cfg, out, module="GenLat.tla")
        if cfg.startswith("GenLat_N6") and len(regs) > 120000:
            regs = rng.sample(regs, 120000)
            out.notes.append("%s: 120000 registries sampled from the emitted universe" % cfg)
        scs = [lat_script(r, n, "%s-%d" % (cfg.replace(".cfg", ""), i), policies, rng, "mset", False, True, ("L", "RT", "T"),
                          order=(rng.randrange(1 << 30) if rng.random() < 0.5 else None))
               for i, r in enumerate(regs)]
        F.execute_and_validate("C04", exe, scs, out, "c04-" + cfg, TCFG)
        allscs = allscs or scs
    # random larger lattices, every registration style
    scs = random_scripts(rng, 300 if tier == "quick" else 5000, policies, ("L", "RT", "T"), max_n=14,
                         style=lambda r: r.choice(["complete", "direct", "random", "complete+self"]))
    F.execute_and_validate("C04", exe, scs, out, "c04-rnd", TCFG)
    # several updates in one process: classes, methods and definitions come and go, v-tables move and the dispatch data is
    # reallocated; after every update the layout of THAT update is recorded and every call must read its cells only
    # (a v-table pointer that survives from an earlier update shows here)
    hs = []
    for i in range(150 if tier == "quick" else 3000):
        hist, mpool = random_history(rng, 1, rng.randrange(15, 50))
        hs.append(S.history_script("c04-hist-%d" % i, [[p] for p in policies + ["stdmap", "chk"]], hist, shape_k=i, layout_too=True))
    F.execute_and_validate("C04", exe, hs, out, "c04-hist", TCFG)
    if tier == "thorough":
        # the same traces under AddressSanitizer: an out-of-bounds read of the dispatch data kills the child
        asan = C.build_dyn(san="address")
        F.execute_and_validate("C04", asan, scs[:1500], out, "c04-asan", TCFG)
        out.notes.append("1500 random scripts re-executed under AddressSanitizer")
    F.selftest_corruption(exe, scs[0], out, mutate_first("layout", break_layout), "two classes given the same v-table pointer in a recorded layout", TCFG)
    F.selftest_corruption(exe, scs[0], out, mutate_first("reads", break_read), "one recorded read address shifted by one word", TCFG)
    return F.report("C04", tier, seed, out, t0, LEVEL,
                    rule="a case = one lattice x placement of methods x registration style under one policy: the layout installed by update "
                         "(dispatch data size, v-table pointer per class, slots/strides per method, table extents) must give every acceptable "
                         "(class, method, parameter) its own in-bounds cell (LayoutOK), and every address read by resolve() (hook H2) must be the cell "
                         "owned by the argument's class for that parameter or lie in the method's own table; distinct_nontrivial = distinct scripts",
                    assumptions=ASSUME_DYN + ["read addresses come from hook H2 call sites in core.hpp (resolve_uni / resolve_multi_*)"],
                    extra_cov={"policies": policies})


def real_class_programs(pid, regs, rng, out, nprog, tier, per=8, staged=None):
    # staged: tuple of stages -- a two-stage build (generator program, then applications compiled with the generated
    # slots.hpp / tables.hpp), default-policy scenarios only; see lattice_emit.program
    """gen harness: inheritance graphs as real C++ hierarchies, registered by register_classes statements
    that split the graph at random (every direct edge inside some statement); probe method per class,
    a two-parameter method with random definitions; logs validated by TraceYomm2."""
    sys_path_gen()
    import gen
    import lattice_emit as LE
    graphs = {}
    for r in regs:
        graphs[tuple(sorted((e[0], e[1]) for e in r["edges"]))] = 1
    graphs = sorted(graphs)
    sources = {}
    for pi in range(nprog):
        scen = []
        for si in range(per):
            idx = si
            off = 10 * (si + 1)
            edges0 = rng.choice(graphs)
            n = 4
            classes = [off + c for c in range(1, n + 1)]
            edges = [(off + d, off + b) for d, b in edges0]
            anc = S.anc_closure(edges, classes)
            # statements: random covers; every edge inside at least one statement, every class somewhere
            statements = []
            for d, b in edges:
                if not any(d in st and b in st for st in statements) or rng.random() < 0.2:
                    extra = [c for c in classes if rng.random() < 0.35]
                    statements.append(sorted(set([d, b] + extra), key=lambda x: rng.random()))
            for c in classes:
                if not any(c in st for st in statements):
                    statements.append([c])
            rng.shuffle(statements)
            methods = [(i + 1, [c]) for i, c in enumerate(classes)]
            defs = []
            # odd scenarios are the "one route for a whole method" scenarios: the probe of the class with most derived classes is
            # defined for every class below it, all classes are concrete, so that several definitions with different next targets
            # are attached the same way
            rich = max(classes, key=lambda c: len([x for x in classes if c in anc[x]])) if si % 2 == 1 else None
            for m, vp in methods:
                for d, c in enumerate([x for x in classes if vp[0] in anc[x] and (rng.random() < 0.6 or vp[0] == rich)]):
                    defs.append((m, d, [c]))
            vp2 = [rng.choice(classes), rng.choice(classes)]
            methods.append((n + 1, vp2))
            for d in range(rng.randrange(0, 4)):
                defs.append((n + 1, d, [rng.choice([x for x in classes if v in anc[x]]) for v in vp2]))
            # distinct definitions per method only (two define_method with the same signature would not compile)
            seen, dd = set(), []
            for m, d, vp in defs:
                if (m, tuple(vp)) not in seen:
                    seen.add((m, tuple(vp)))
                    dd.append((m, d, vp))
            abstract = [c for c in classes if rng.random() < 0.25] if rich is None else []
            # signature shapes through the macro front end: non-virtual parameters anywhere, pointer and virtual_ptr parameters
            shapes = {}
            for m, vp in methods:
                if len(vp) == 1:
                    shapes[m] = rng.choice(["V", "V", "NV", "VN", "W", "WN", "P", "NPN", "Q", "S", "C", "NQ", "CN"])
                else:
                    shapes[m] = rng.choice(["VV", "VNV", "NVVN", "PV", "VP", "PNP", "WV", "WNV", "WP", "NWNP", "QQ", "QNQ", "SC", "CV", "VS", "QP", "SNW"])
            # front-end variants: how classes are registered, how methods are declared and called, how definitions are
            # attached (macros, containers, the core API with its four ways of getting a next pointer, member functions),
            # and which policy the scenario lives in (scenarios of one policy form one registry)
            # policies: 0 default, 1 derived from it by rebind, 2 hand-assembled with a pointer map, 3 custom ids that differ
            # only above bit 31 (perfect hash), 4 deferred custom ids (pointer map)
            rng.shuffle(dd)     # the order of the definitions in the source is the order of their registration
            # (6: small custom integer ids; the first scenario of a program takes it every other time, so that id 0 exists)
            pol = 0
            if not staged:
                pol = rng.choice([0, 0, 1, 2, 3, 4, 5]) if si >= 2 else (6 if si == 0 else 0)
            style = {"pol": pol, "reg": {}, "cuts": {}, "meth": {}, "def": {}, "call": {},
                     "late_reg": rng.random() < 0.4}
            for i, st in enumerate(statements):
                style["reg"][i] = rng.choice(["classes", "classes", "use", "decl", "nested", "nested"])
                if style["reg"][i] == "nested" and len(st) > 1:
                    style["cuts"][i] = sorted(set(rng.randrange(1, len(st)) for _ in range(rng.randrange(1, 3))))
            for m, vp in methods:
                style["meth"][m] = rng.choice(["free", "free", "static", "over"])
                style["call"][m] = rng.choice(["fn", "class"])
            for m, d, vp in dd:
                style["def"][(m, d)] = rng.choice(["plain", "box", "inline", "api_next", "api_next", "api_use", "api_own", "api_plain", "api_fun", "api_fun0", "member"])
            # one family per scenario in turn gets a whole method attached the same way (state shared by mistake between the
            # definitions of one method shows only when several of them use the same route)
            same = None
            if si % 2 == 1:
                same = "api_next" if si == 1 else ["api_use", "box", "api_own", "api_fun", "inline", "plain"][(si // 2 + pi) % 6]
            if same:
                counts = {}
                for m, d, vp in dd:
                    counts[m] = counts.get(m, 0) + 1
                big = max(counts, key=lambda m: counts[m]) if counts else None
                if big is not None:
                    style["meth"][big] = "free"     # (the core API routes need method_class, which cannot name a static method)
                for m, d, vp in dd:
                    if m == big:
                        style["def"][(m, d)] = same
            # the second scenario of a program is also the "twin" scenario: its classes and the functions defining its multi-method
            # are registered in a second policy as well (the same functions: signatures with virtual_<T&> do not name the policy)
            if si == 1 and not staged:
                style["twin"] = rng.choice([1, 2])
                tm = n + 1
                shapes[tm] = rng.choice(["VV", "VNV", "WV"])
                style["meth"][tm] = "free"
                for m, d, vp in dd:
                    if m == tm:
                        style["def"][(m, d)] = rng.choice(["api_fun", "api_fun", "api_fun0"])
            # registration objects that come and go at run time: one or two further records for classes that are registered already
            if not staged and rng.random() < 0.6:
                style["dyn"] = [list(rng.choice(statements)) for _ in range(rng.randrange(1, 3))]
            scen.append((idx, classes, edges, statements, methods, dd, abstract, shapes, style))
        name = "real%d" % pi
        sources[name] = LE.program(name, scen, staged=bool(staged))
    if staged:
        return staged_run(pid, sources, staged, out, tier, cfg={"C02": "TraceYomm2_errrec.cfg"}.get(pid, "TraceYomm2_plain.cfg"))
    res = gen.build_and_run(sources, extra=(["-DNDEBUG"] if tier == "quick" else []))
    F.validate_program_outputs(pid, res, sources, out, pid.lower() + "-real", {"C17": "TraceYomm2_report.cfg", "C02": "TraceYomm2_errrec.cfg"}.get(pid, "TraceYomm2_plain.cfg"), "TraceYomm2.tla")
    if tier == "thorough":
        res2 = gen.build_and_run({k + "_dbg": v.replace('\\"script\\":\\"%s\\"' % k, '\\"script\\":\\"%s_dbg\\"' % k) for k, v in sources.items()})
        F.validate_program_outputs(pid, res2, {k + "_dbg": v for k, v in sources.items()}, out, pid.lower() + "-real-dbg",
                                   {"C17": "TraceYomm2_report.cfg", "C02": "TraceYomm2_errrec.cfg"}.get(pid, "TraceYomm2_plain.cfg"), "TraceYomm2.tla")
    out.notes.append("%d generated programs with real class hierarchies (x %d scenarios each)" % (len(sources), per))


def wide_programs(pid, rng, out, nprog, tier):
    """One method with many definitions (more than 64: the width of a machine word) on a lattice of nine real classes:
    a two-parameter method defined for most of the 81 pairs, a one-parameter method defined for every class."""
    sys_path_gen()
    import gen
    import lattice_emit as LE
    sources = {}
    for pi in range(nprog):
        n = 9
        classes = list(range(11, 11 + n))
        edges = []
        for i, c in enumerate(classes[1:], 1):      # a random tree with some second bases: bases come first in the numbering
            b = classes[rng.randrange(0, i)]
            edges.append((c, b))
            if i > 2 and rng.random() < 0.3:
                b2 = classes[rng.randrange(0, i)]
                if b2 != b and (c, b2) not in edges:
                    edges.append((c, b2))
        anc = S.anc_closure(edges, classes)
        # keep the graph reduced (a direct base that is also an indirect one is dropped)
        edges = [(d, b) for d, b in edges if not any(b in anc[x] and x != b for dd, x in edges if dd == d and x != b)]
        anc = S.anc_closure(edges, classes)
        root = classes[0]
        cov = [c for c in classes if root in anc[c]]
        methods = [(1, [root, root]), (2, [root])]
        defs = []
        d = 0
        for a in cov:
            for b in cov:
                if rng.random() < 0.92:
                    defs.append((1, d, [a, b]))
                    d += 1
        for i, c in enumerate(cov):
            defs.append((2, i, [c]))
        rng.shuffle(defs)
        style = {"pol": rng.choice([0, 2, 5]), "reg": {0: rng.choice(["classes", "use"])}, "cuts": {}, "meth": {}, "def": {}, "call": {}}
        for m, dd, vp in defs:
            style["def"][(m, dd)] = rng.choice(["plain", "plain", "api_next", "box"])
        shapes = {1: rng.choice(["VV", "VNV", "PV"]), 2: rng.choice(["V", "NV", "P"])}
        name = "wide%d" % pi
        sources[name] = LE.program(name, [(0, classes, edges, [list(classes)], methods, defs, [], shapes, style)])
    res = gen.build_and_run(sources, extra=(["-DNDEBUG"] if tier == "quick" else []))
    F.validate_program_outputs(pid, res, sources, out, pid.lower() + "-wide", "TraceYomm2_plain.cfg", "TraceYomm2.tla")
    out.notes.append("%d generated programs with a method of more than 64 definitions (nine real classes)" % len(sources))


def plain_programs(pid, rng, out, nprog, tier, per=6):
    """Hierarchies of classes without virtual functions (gen/plain_emit.py): `final` is the only route to dispatch on them.
    Built with the checked (debug) default policy; one leaf class per scenario may be left unregistered."""
    sys_path_gen()
    import gen
    import plain_emit as PE
    sources = {}
    for pi in range(nprog):
        scen = []
        for si in range(per):
            off = 10 * (si + 1)
            classes = [off + i for i in range(1, 5)]
            parent = {classes[0]: None}
            for i, c in enumerate(classes[1:], 1):
                parent[c] = classes[rng.randrange(0, i)]
            leaves = [c for c in classes if c not in parent.values()]
            missing = rng.choice(leaves + [None])
            reg = [c for c in classes if c != missing]

            def anc(c):
                a = []
                while c is not None:
                    a.append(c)
                    c = parent[c]
                return a
            root = classes[0]
            methods = [(1, rng.choice(["P", "NP", "PN"]), [root]), (2, rng.choice(["PNP", "PP"]), [root, root])]
            mid = rng.choice(reg)
            methods.append((3, "P", [mid]))
            defs = [(1, d, [c]) for d, c in enumerate(reg) if rng.random() < 0.7]
            defs += [(2, d, [rng.choice(reg), rng.choice(reg)]) for d in range(rng.randrange(0, 4))]
            defs += [(3, d, [c]) for d, c in enumerate(reg) if mid in anc(c) and rng.random() < 0.6]
            seen, dd = set(), []
            for m, d, vp in defs:
                if (m, tuple(vp)) not in seen:
                    seen.add((m, tuple(vp)))
                    dd.append((m, d, vp))
            scen.append((si, classes, parent, missing, methods, dd))
        sources["plain%d" % pi] = PE.program("plain%d" % pi, scen)
    res = gen.build_and_run(sources)
    F.validate_program_outputs(pid, res, sources, out, pid.lower() + "-plain", "TraceYomm2_dispatch.cfg", "TraceYomm2.tla")
    n_unknown = sum(text.count('"res":"unknown"') for rc, text in res.values() if rc is not None)
    if not out.rejections and not n_unknown:
        raise C.ToolFailure("vacuous: no unregistered non-polymorphic class was presented to final")
    out.notes.append("%d generated programs with non-polymorphic class hierarchies (x %d scenarios): final / final_virtual_ptr / make_virtual_shared, "
                     "%d reports of an unregistered class" % (len(sources), per, n_unknown))


def staged_run(pid, sources, stages, out, tier, cfg="TraceYomm2_plain.cfg"):
    """Two-stage builds of generated real-class programs: stage 1 runs update and writes slots.hpp (generated static
    offsets) and tables.hpp (encoded dispatch data) with the real generator; the later stages are the same source compiled
    with those headers.  Every stage logs like an ordinary real-class program and is validated by TraceYomm2."""
    sys_path_gen()
    import gen
    flavours = [("", [])] if tier == "quick" else [("", []), ("_rel", ["-DNDEBUG"])]
    if tier == "quick" and pid == "C12":
        flavours = [("", []), ("_rel", ["-DNDEBUG"])]     # checked (debug) and unchecked (release) default policy
    total = {"so": 0, "installed": 0, "programs": 0}
    for tag, extra in flavours:
        srcs = {k + tag: v.replace('\\"script\\":\\"%s.s' % k, '\\"script\\":\\"%s.s' % (k + tag)) for k, v in sources.items()}
        res, generated = gen.build_and_run_staged(srcs, stages=stages, extra=extra)
        by_prog = {}
        for k in res:
            by_prog[k] = srcs[k.rsplit(".s", 1)[0]]
        F.validate_program_outputs(pid, res, by_prog, out, pid.lower() + "-staged" + tag, cfg, "TraceYomm2.tla")
        for k, (rc, text) in res.items():
            st = int(k.rsplit(".s", 1)[1])
            if rc is not None:
                total["programs"] += 1
                if st in (2, 3):
                    total["so"] += text.count('"so":1')      # (a method without generated offsets logs an event that is rejected)
                if st in (3, 4):
                    total["installed"] += text.count('"e":"installed"')
        for name, gf in generated.items():
            if not out.samples or len(out.samples) < 2:
                out.samples.append({"program": name, "slots.hpp_head": (gf.get("slots.hpp") or "").splitlines()[:3],
                                    "tables.hpp_head": (gf.get("tables.hpp") or "").splitlines()[:12]})
    if out.rejections:      # a verdict comes before any complaint about coverage
        return total
    if (set(stages) & {2, 3}) and not total["so"]:
        raise C.ToolFailure("vacuous: no method was compiled with generated static offsets")
    if (set(stages) & {3, 4}) and not total["installed"]:
        raise C.ToolFailure("vacuous: no program installed its dispatch data from a generated tables.hpp")
    out.notes.append("%d staged program runs (stages %s): %d methods compiled with generated static offsets, %d installations from generated tables.hpp"
                     % (total["programs"], "/".join(map(str, stages)), total["so"], total["installed"]))
    return total


def check_C08(tier, seed):
    TCFG = "TraceYomm2_dispatch.cfg"
    t0 = time.time()
    out = F.Outcome("C08")
    rng = random.Random(seed)
    policies = ["vec", "fast", "map", "prj", "stdr"]
    exe = C.build_dyn()
    universes = [("GenLat_P3any.cfg", 3, 3), ("GenLat_P4any.cfg", 4, 3)]
    F.model_check(out, "CompilerSlots.tla", "CompilerSlots_N4.cfg")
    F.model_check(out, "CompilerSlots.tla", "CompilerSlots_N4asListed.cfg", expect_violation=True)
    if tier == "thorough":
        universes += [("GenLat_P5any.cfg", 5, 2)]
        rt = C.tlc_model("GenLat.tla", "GenLat_P5anyNoEmit.cfg")
        out.model_states += rt.generated
        out.model_distinct += rt.distinct
        out.model_runs.append({"module": "GenLat.tla", "cfg": "GenLat_P5anyNoEmit.cfg", "generated": rt.generated, "distinct": rt.distinct, "ok": rt.ok})
        if not rt.ok:
            raise F.ModelViolation("GenLat.tla", "GenLat_P5anyNoEmit.cfg", rt.out)
    regs_p4 = []
    for cfg, n, reps in universes:
        regs = F.gen_registries(cfg, out, module="GenLat.tla")
        if n == 4:
            regs_p4 = regs
        scs = []
        for i, r in enumerate(regs):
            scs.append(lat_script(r, n, "%s-%d" % (cfg.replace(".cfg", ""), i), policies, rng, "all", False, True, ("T", "X", "L")))
            for k in range(reps - 1):   # the same presentation split over several records, duplicated, reordered
                scs.append(lat_script(r, n, "%s-%d.s%d" % (cfg.replace(".cfg", ""), i, k), policies, rng, "all", True, True, ("T", "X", "L"),
                                      order=rng.randrange(1 << 30)))
        F.execute_and_validate("C08", exe, scs, out, "c08-" + cfg, TCFG)
    scs = random_scripts(rng, 200 if tier == "quick" else 4000, policies, ("T", "X", "L"), max_n=12,
                         style=lambda r: r.choice(["direct", "random", "random", "complete+self"]), orders=2)
    F.execute_and_validate("C08", exe, scs, out, "c08-rnd", TCFG)
    # the same with REAL classes through the template front end (register_classes -> inheritance_map ->
    # class_declaration): graphs from the TLC universe, split over several registration statements
    real_class_programs("C08", regs_p4, rng, out, 12 if tier == "quick" else 120, tier)

    def drop_base(ev):
        if ev["bases"]:
            ev["bases"] = ev["bases"][1:]
            return True
        return False
    for s in scs[:40]:
        if F.selftest_corruption(exe, s, out, mutate_first("class", drop_base), "one listed base removed from a recorded registration", TCFG, must=False):
            break
    out.need_selftest = True
    return F.report("C08", tier, seed, out, t0, LEVEL,
                    rule="a case = one presentation of one inheritance graph (listed bases per class between direct and all bases, optional self, "
                         "duplicates, several records, any order) under one policy, with a probe method on every class: outcome tables over the tuples "
                         "acceptable per the closure of the listed relation, next targets and the layout must equal what the complete registration gives "
                         "(the oracle only sees the closure); distinct_nontrivial = distinct scripts",
                    assumptions=ASSUME_DYN, extra_cov={"policies": policies})


# ---------------------------------------------------------------------------
def gen_histories(cfg, out, simulate=None):
    """Histories printed by Yomm2MC (exhaustive within the bound, or TLC random simulation)."""
    if simulate:
        r = C.tlc("Yomm2MC.tla", cfg, workers=8, timeout=1200, xmx="8g", simulate=simulate[0], extra=["-depth", str(simulate[1])])
        ok = r.rc == 0 or "Progress" in r.out
        if "is violated" in r.out or "Error:" in r.out and "violat" in r.out:
            raise F.ModelViolation("Yomm2MC.tla", cfg, r.out)
        import re
        m = re.search(r"The number of states generated: (\d+)", r.out)
        gen = int(m.group(1)) if m else 0
        out.model_states += gen
        out.model_distinct += gen
        hs = r.printed()
        out.model_runs.append({"module": "Yomm2MC.tla", "cfg": cfg, "mode": "simulate " + simulate[0], "generated": gen, "emitted": len(hs)})
        # simulation prints duplicates: keep distinct histories
        seen, res = set(), []
        for h in hs:
            k = json.dumps(h, sort_keys=True)
            if k not in seen:
                seen.add(k)
                res.append(h)
        return res
    r = C.tlc_model("Yomm2MC.tla", cfg)
    out.model_states += r.generated
    out.model_distinct += r.distinct
    hs = r.printed()
    out.model_runs.append({"module": "Yomm2MC.tla", "cfg": cfg, "generated": r.generated, "distinct": r.distinct,
                           "emitted": len(hs), "ok": r.ok, "wall_s": round(r.wall, 1)})
    if not r.ok:
        raise F.ModelViolation("Yomm2MC.tla", cfg, r.out)
    return hs


def random_history(rng, npol=1, steps=40, n=None):
    """Guided random history (V binding): a random registry is the pool; items are toggled with a bias
    towards consistent catalogs, updates are frequent."""
    n = n or rng.randrange(3, 10)
    classes, edges, methods, defs, abstract, kind = S.random_registry(rng, n, rng.randrange(1, 4), 3, 6)
    recs = []
    for i, (c, bases) in enumerate(S.presentation(rng.choice(["direct", "complete", "random"]), classes, edges, rng)):
        recs.append({"r": i + 1, "c": c, "bases": bases, "abs": c in abstract})
    mpool = [{"m": m, "vp": vp, "shape": sh} for m, sh, vp in methods]
    dpool = [{"m": m, "d": d, "vp": vp} for m, d, vp in defs]
    hist = []
    state = [{"c": set(), "m": set(), "d": set(), "mknown": set()} for _ in range(npol)]
    for _ in range(steps):
        p = rng.randrange(npol)
        st = state[p]
        x = rng.random()
        missing_c = [i for i in range(len(recs)) if i not in st["c"]]
        if missing_c and (x < 0.35 or not st["c"]):
            i = rng.choice(missing_c)
            st["c"].add(i)
            hist.append({"op": "c", "p": p, "x": recs[i]})
        elif x < 0.42 and st["c"]:
            i = rng.choice(sorted(st["c"]))
            st["c"].discard(i)
            hist.append({"op": "uc", "p": p, "x": recs[i]})
        elif x < 0.55 and len(st["m"]) < len(mpool):
            i = rng.choice([j for j in range(len(mpool)) if j not in st["m"]])
            st["m"].add(i)
            st["mknown"].add(i)
            hist.append({"op": "m", "p": p, "x": mpool[i]})
        elif x < 0.60 and st["m"]:
            i = rng.choice(sorted(st["m"]))
            st["m"].discard(i)
            hist.append({"op": "um", "p": p, "x": mpool[i]})
        elif x < 0.75:
            cand = [j for j in range(len(dpool)) if j not in st["d"] and any(mpool[k]["m"] == dpool[j]["m"] for k in st["mknown"])]
            if cand:
                i = rng.choice(cand)
                st["d"].add(i)
                hist.append({"op": "d", "p": p, "x": dpool[i]})
        elif x < 0.82 and st["d"]:
            i = rng.choice(sorted(st["d"]))
            st["d"].discard(i)
            hist.append({"op": "ud", "p": p, "x": dpool[i]})
        else:
            hist.append({"op": "u", "p": p, "x": {"m": 0}})
    for p in range(npol):
        hist.append({"op": "u", "p": p, "x": {"m": 0}})
    return hist, mpool


def history_script_shapes(sid, bindings, hist, mpool, npol, every):
    s = S.history_script(sid, bindings, hist, npol=npol, observe_every_step=every)
    # use the generator's shapes for the random pools
    shapes = {m["m"]: m["shape"] for m in mpool}
    lines = []
    for ln in s.lines:
        if ln.startswith("m "):
            t = ln.split()
            t[3] = shapes.get(int(t[2]), t[3])
            ln = " ".join(t)
        lines.append(ln)
    s.lines = lines
    return s


FLAVOURS = {
    "std": ["stdd", "stdr", "stdmap"],
    "custom": ["fast", "chk", "vec", "map", "ind", "old", "wide", "widemap", "small", "smallchk"],
    "projected": ["prj", "prjmap"],
    "deferred": ["dfr", "dfrh"],
}


def dl_histories(out, tier):
    """Real shared libraries: a main program and two plugins (new classes + definitions), every history of
    dlopen / dlclose / update up to a bound executed in one process; the registration objects' constructors
    and destructors (class_declaration, function-local definition_info) run as the loader runs them."""
    sys_path_gen()
    import itertools
    import dl_emit
    d = os.path.join(C.scratch(), "dl")
    os.makedirs(d, exist_ok=True)
    maxlen = 5 if tier == "quick" else 7
    words = []
    for L in range(1, maxlen + 1):
        for w in itertools.product("abu", repeat=L - 1):
            words.append("".join(w) + "u")
    results, sources = {}, {}
    for variant, extra in (("rel", ["-DNDEBUG"]), ("dbg", [])):
        name = "dl" + variant
        vd = os.path.join(d, variant)
        os.makedirs(vd, exist_ok=True)
        srcs = dl_emit.sources(name)
        for f, t in srcs.items():
            with open(os.path.join(vd, f), "w") as fh:
                fh.write(t)
        flags = ["-std=c++17", "-O0", "-w", "-I" + os.path.join(C.REPO, "include"), "-DYOMM2_VERIF", "-include",
                 os.path.join(C.HARNESS, "verif_hooks.hpp"), "-fno-gnu-unique"] + extra
        ok = True
        msg = ""
        for cmd in (["g++"] + flags + ["main.cpp", "-o", "main", "-ldl", "-Wl,-export-dynamic"],
                    ["g++"] + flags + ["-fPIC", "-shared", "plug_a.cpp", "-o", "a.so"],
                    ["g++"] + flags + ["-fPIC", "-shared", "plug_b.cpp", "-o", "b.so"]):
            rc, o = C.sh(cmd, cwd=vd, timeout=900)
            if rc != 0:
                ok, msg = False, o
                break
        sources[name] = srcs["main.cpp"]
        if not ok:
            results[name] = (None, "COMPILE-FAILED\n" + msg[-2000:])
            continue
        rc, o = C.sh(["./main", "./a.so", "./b.so"] + words, cwd=vd, timeout=900)
        results[name] = (rc, o)
    F.validate_program_outputs("C07", results, sources, out, "c07-dl", "TraceYomm2_dispatch.cfg", "TraceYomm2.tla")
    out.notes.append("%d dlopen/dlclose/update histories (all words over {load/unload A, load/unload B, update} of length <= %d ending in update) "
                     "executed with real shared libraries, release and debug default policies" % (len(words), maxlen))


def check_C07(tier, seed):
    TCFG = "TraceYomm2_dispatch.cfg"
    t0 = time.time()
    out = F.Outcome("C07")
    rng = random.Random(seed)
    exe = C.build_dyn()
    policies = ["fast", "chk", "vec", "map", "ind", "stdd", "stdmap", "prj", "dfr", "dfrh", "old"]
    hs = gen_histories("Yomm2MC_small.cfg" if tier == "quick" else "Yomm2MC_mid.cfg", out)
    scs = [S.history_script("mc-%d" % i, [[p] for p in policies], h, shape_k=i) for i, h in enumerate(hs)]
    F.execute_and_validate("C07", exe, scs, out, "c07-mc", TCFG)
    sim = gen_histories("Yomm2MC_sim.cfg", out, simulate=("num=%d" % (150 if tier == "quick" else 2000), 15))
    scs = [S.history_script("sim-%d" % i, [[p] for p in policies], h, shape_k=i) for i, h in enumerate(sim)]
    F.execute_and_validate("C07", exe, scs, out, "c07-sim", TCFG)
    # V: guided random histories on random registries; every update is followed by a second update
    # with no change, which must alter nothing
    scs = []
    for i in range(200 if tier == "quick" else 4000):
        hist, mpool = random_history(rng, 1, rng.randrange(15, 60))
        h2 = []
        for h in hist:
            h2.append(h)
            if h["op"] == "u" and rng.random() < 0.5:
                h2.append(h)
        scs.append(history_script_shapes("rnd-%d" % i, [[p] for p in policies], h2, mpool, 1, False))
    F.execute_and_validate("C07", exe, scs, out, "c07-rnd", TCFG)

    dl_histories(out, tier)
    # registration objects constructed and destroyed at run time inside generated real-class programs, under every policy of
    # the programs (deferred ids among them): update after load, after unload, after loading again
    lat = F.gen_registries("GenLat_P4any.cfg", out, module="GenLat.tla")
    real_class_programs("C07", lat, rng, out, 8 if tier == "quick" else 80, tier)

    def drop_undef(lines):
        for i, ln in enumerate(lines):
            if ln.startswith('{"e":"undef"') or ln.startswith('{"e":"unclass"'):
                return lines[:i] + lines[i + 1:]
        return lines
    for s in scs[:60]:
        if F.selftest_corruption(exe, s, out, drop_undef, "one unregistration event dropped from a recorded history", TCFG, must=False):
            break
    out.need_selftest = True
    return F.report("C07", tier, seed, out, t0, LEVEL,
                    rule="a case = one history of register / unregister (class records, methods, definitions) and update operations under one "
                         "policy; after every update all outcome tables and next slots are compared with the oracle evaluated on the catalogs as "
                         "they are at that moment (= a fresh process with these registrations); distinct_nontrivial = distinct histories",
                    assumptions=ASSUME_DYN + ["registration objects' constructors/destructors are replaced by direct static_list push/remove in the dyn harness"],
                    extra_cov={"policies": policies})


def check_C10(tier, seed):
    TCFG = "TraceYomm2_dispatch.cfg"
    t0 = time.time()
    out = F.Outcome("C10")
    rng = random.Random(seed)
    exe = C.build_dyn()
    policies = sum(FLAVOURS.values(), [])
    universes = [("GenReg_N4A1D3.cfg", 4, 1), ("GenReg_N4A2D2.cfg", 4, 2), ("GenReg_N3A3D2.cfg", 3, 3)]
    if tier == "thorough":
        universes += [("GenReg_N4A2D3.cfg", 4, 2), ("GenReg_N3A4D2.cfg", 3, 4), ("GenReg_N5A2D2.cfg", 5, 2)]
    for cfg, n, ar in universes:
        regs = F.gen_registries(cfg, out)
        if tier == "quick" and len(regs) > 2000:
            regs = rng.sample(regs, 2000)
            out.notes.append("%s: 2000 registries sampled (quick)" % cfg)
        scs = scripts_from_universe(regs, n, ar, rng, policies, cfg.replace(".cfg", ""), ("T", "CT", "X"), style="complete+self")
        # several updates: the second and third must change nothing, under every flavour
        for s in scs:
            upd = [i for i, ln in enumerate(s.lines) if ln.startswith("u ")]
            tail = s.lines[upd[0]:]
            s.lines = s.lines + tail + tail[:1] + tail
        F.execute_and_validate("C10", exe, scs, out, "c10-" + cfg, TCFG)
    hs = gen_histories("Yomm2MC_small.cfg", out)
    scs = [S.history_script("mc-%d" % i, [[p] for p in policies], h, shape_k=i) for i, h in enumerate(hs)]
    F.execute_and_validate("C10", exe, scs, out, "c10-mc", TCFG)
    scs = random_scripts(rng, 200 if tier == "quick" else 3000, policies, ("T", "CT", "X"), max_n=10,
                         style=lambda r: r.choice(["complete", "direct", "random"]))
    F.execute_and_validate("C10", exe, scs, out, "c10-rnd", TCFG)
    F.selftest_corruption(exe, scs[0], out, mutate_first("table", flip_table_row), "one outcome altered", TCFG)
    # real class hierarchies through the template front end: scenarios of one program live in the default policy (std ids), a
    # policy derived from it, a hand-assembled one, one with custom ids carried by the objects (differing only above bit 31)
    # one with deferred custom ids, one with indirect v-table pointers
    lat = F.gen_registries("GenLat_P4any.cfg", out, module="GenLat.tla")
    real_class_programs("C10", lat, rng, out, 8 if tier == "quick" else 80, tier)
    return F.report("C10", tier, seed, out, t0, LEVEL,
                    rule="a case = one registry (or history) executed under one RTTI flavour / policy: std type_info ids, custom integer ids, "
                         "ids with a many-to-one type_index projection (three ids per class, objects created under each registered id, catalog "
                         "entries naming any alias), deferred ids; with and without hash; three updates; distinct_nontrivial = distinct scripts",
                    assumptions=ASSUME_DYN, extra_cov={"flavours": FLAVOURS})


def iso_vptr_script(rng, sid, pair):
    """Two policies in one process hold the same classes; virtual_ptr handles of one must stay valid (direct ones too)
    while the other registers, unregisters and updates."""
    n = rng.randrange(3, 7)
    classes, edges, _, _, abstract, kind = S.random_registry(rng, n, 0, 1, 0)
    anc = S.anc_closure(edges, classes)
    cov = {c: [x for x in classes if c in anc[x]] for c in classes}
    chain = pick_chain(rng, classes, anc)
    root = rng.choice(sorted(anc[chain[0]]))
    s = S.Script(sid, [list(pair)])
    nextm = {0: 3, 1: 3}
    for p in (0, 1):
        for k, c in enumerate(chain):
            s.node(k, c, p=p)
        for c, bases in S.presentation(rng.choice(["direct", "complete"]), classes, edges, rng):
            s.cls(c, bases, p=p)
        for m, sh in ((1, "P"), (2, "Q")):
            s.method(m, sh, [root], p=p)
            for d in range(rng.randrange(1, 4)):
                s.defn(m, d, [rng.choice(cov[root])], p=p)
        s.update(p=p)
    handles = {0: [], 1: []}
    hid = [0]

    def make(p):
        hid[0] += 1
        k = rng.randrange(len(chain))
        route = rng.choice(["ref", "final", "sh_lv", "mk", "sh_base", "ref"])
        dyn = chain[k] if route in ("final", "mk") else rng.choice(cov[chain[k]])
        s.vmake(hid[0], k, route, dyn, p=p)
        handles[p].append((hid[0], route.startswith("sh") or route == "mk"))

    def use(p):
        for h, shared in handles[p]:
            s.vcall(2 if shared else 1, [h], p=p)
    for p in (0, 1):
        for _ in range(rng.randrange(2, 5)):
            make(p)
    use(0)
    use(1)
    extra = {0: [(3, "R"), (4, "QQ")], 1: [(3, "R"), (4, "QQ")]}
    for _ in range(rng.randrange(2, 5)):
        q = rng.randrange(2)
        x = rng.random()
        if x < 0.5 and extra[q]:
            m, sh = extra[q].pop(0)
            s.method(m, sh, [root] * len(sh), p=q)
            s.defn(m, 0, [rng.choice(cov[root]) for _ in sh], p=q)
        else:
            if nextm[q] > 9:
                continue
            nextm[q] += 1
            s.defn(1, nextm[q], [rng.choice(cov[root])], p=q)
        use(1 - q)                 # the other policy is untouched, between the registration ...
        s.update(p=q)
        use(1 - q)                 # ... and after the update
        use(q)                     # its own direct handles are stale (skipped), its indirect ones are not
        make(q)
        use(q)
    return s


def check_C14(tier, seed):
    TCFG = "TraceYomm2_dispatch.cfg"
    t0 = time.time()
    out = F.Outcome("C14")
    rng = random.Random(seed)
    exe = C.build_dyn()
    # every facet implementation is paired with itself in another policy (two hashed, two unhashed vectors,
    # two maps, two indirect, two deferred ...): state shared by mistake between instantiations shows there
    pairs = [["fast", "chk"], ["vec", "map"], ["dbg", "rel"], ["ind", "indfast"], ["stdd", "stdr"], ["prj", "vec"],
             ["rem", "dbg"], ["dfr", "dfrh"], ["old", "thr"], ["map", "prjmap"], ["stdmap", "map"], ["vec", "indvec"],
             ["fast", "thr"], ["chk", "ind"]]
    hs = gen_histories("Yomm2MC_two.cfg", out)
    scs = [S.history_script("mc2-%d" % i, pairs, h, npol=2, observe_every_step=True, shape_k=i) for i, h in enumerate(hs)]
    F.execute_and_validate("C14", exe, scs, out, "c14-mc", TCFG)
    triples = [["fast", "vec", "map"], ["dbg", "rel", "rem"], ["ind", "stdd", "prj"], ["map", "prjmap", "stdmap"]]
    scs = []
    for i in range(120 if tier == "quick" else 2500):
        npol = rng.choice([2, 2, 3])
        hist, mpool = random_history(rng, npol, rng.randrange(20, 60), n=rng.randrange(3, 7))
        # handlers belong to one policy: switch one policy to a returning handler near the end; the
        # others must keep throwing
        scs.append(history_script_shapes("rnd%d-%d" % (npol, i), pairs if npol == 2 else triples, hist, mpool, npol, True))
    F.execute_and_validate("C14", exe, scs, out, "c14-rnd", TCFG)
    # virtual_ptr validity belongs to one policy: handles of a policy (direct ones too) stay usable while the other one
    # registers and updates
    vpairs = [["fast", "vec"], ["ind", "indvec"], ["chk", "map"], ["ind", "fast"], ["vec", "indfast"], ["map", "vec"]]
    scs = [iso_vptr_script(rng, "c14-vp-%d" % i, vpairs[i % len(vpairs)]) for i in range(120 if tier == "quick" else 2400)]
    F.execute_and_validate("C14", exe, scs, out, "c14-vp", TCFG)
    # generated real-class programs hold seven policies side by side; one scenario per program registers its classes and the
    # very functions that define its multi-method in a second policy too
    lat = F.gen_registries("GenLat_P4any.cfg", out, module="GenLat.tla")
    real_class_programs("C14", lat, rng, out, 8 if tier == "quick" else 80, tier)
    # error handlers: policy 0 gets a returning handler; erroring calls on policy 1 must still be thrown,
    # then an erroring call on policy 0 aborts
    hsc = []
    for i in range(60 if tier == "quick" else 600):
        sc = S.Script("hdl-%d" % i, [["fast", "chk"], ["vec", "map"], ["dbg", "rel"], ["old", "rem"]])
        for p in (0, 1):
            sc.cls(1, [], p=p, r=1)
            sc.cls(2, [1], p=p, r=2)
            sc.cls(3, [1], p=p, r=3)
            sc.method(1, "VV", [1, 1], p=p)
            sc.defn(1, 0, [2, 3], p=p)
            sc.update(p=p)
        sc.handler("return", p=0)
        sc.raw("CT 1 1")
        t = [rng.choice([1, 2, 3]), rng.choice([1, 2, 3])]
        sc.call(1, t, p=1)
        sc.call(1, t, p=0)
        sc.call(1, t, p=0)
        hsc.append(sc)
    F.execute_and_validate("C14", exe, hsc, out, "c14-hdl", "TraceYomm2_err.cfg")
    F.selftest_corruption(exe, scs[0], out, mutate_first("table", flip_table_row), "one outcome of the untouched policy altered", TCFG)
    return F.report("C14", tier, seed, out, t0, LEVEL,
                    rule="a case = one interleaved history over 2-3 policies (obtained by rebind / replace / remove from the stock policies, "
                         "registering the same class ids) under one policy tuple; after EVERY operation every policy's outcome tables and next "
                         "slots are re-observed: an untouched policy must still match its own catalogs' oracle; plus handler-kind isolation runs; "
                         "distinct_nontrivial = distinct histories",
                    assumptions=ASSUME_DYN, extra_cov={"policy_tuples": pairs + triples})


# ---------------------------------------------------------------------------
def pick_chain(rng, classes, anc, maxlen=4):
    """A chain c0 <- c1 <- ... in the lattice (each derived from the previous)."""
    chain = [rng.choice(classes)]
    while len(chain) < maxlen:
        nxt = [c for c in classes if chain[-1] in anc[c] and c != chain[-1]]
        if not nxt or rng.random() < 0.15:
            break
        chain.append(rng.choice(nxt))
    return chain


VP_POLICIES = ["fast", "chk", "vec", "map", "ind", "indvec", "indfast", "old", "dbg", "rel", "rem", "dfr", "thr"]


def vptr_script(rng, sid, policies, n=None):
    n = n or rng.randrange(3, 9)
    classes, edges, _, _, abstract, kind = S.random_registry(rng, n, 0, 1, 0)
    anc = S.anc_closure(edges, classes)
    cov = {c: [x for x in classes if c in anc[x]] for c in classes}
    chain = pick_chain(rng, classes, anc)
    s = S.Script(sid, [[p] for p in policies])
    for k, c in enumerate(chain):
        s.node(k, c)
    # some leaf classes outside the chain are registered only later: the later updates then change the
    # set of type ids (rehash, reallocation of the pointer vectors), not only the methods
    leaves = [c for c in classes if c not in chain and not any(c in anc[x] and x != c for x in classes)]
    late = set(rng.sample(leaves, rng.randrange(0, len(leaves) + 1))) if leaves else set()
    style = rng.choice(["direct", "complete"])
    late_recs = []
    for c, bases in S.presentation(style, classes, edges, rng):
        if c in late:
            late_recs.append((c, bases))
        else:
            s.cls(c, bases)
    cov = {c: [x for x in cov[c] if x not in late] for c in classes}
    root = rng.choice(sorted(anc[chain[0]]))
    # methods whose virtual parameters are virtual_ptr / const virtual_ptr& / virtual_shared_ptr
    mdefs = [(1, "P", [root]), (2, "R", [root]), (3, "Q", [root]), (4, "RNP", [root, root]), (5, "QQ", [root, root])]
    extra = [(6, "PNRP", [root, root, root]), (7, "V", [root]), (8, "VV", [root, root])]
    declared = []

    def declare(m, shape, vp):
        s.method(m, shape, vp)
        declared.append((m, shape, vp))
        for d in range(rng.randrange(1, 4)):
            s.defn(m, d, [rng.choice(cov[v]) for v in vp])
    for m, shape, vp in mdefs:
        declare(m, shape, vp)
    s.update()
    handles = {}   # h -> (k, dyn, shared)
    nexth = [1]

    def make():
        h = nexth[0]
        nexth[0] += 1
        k = rng.randrange(len(chain))
        route = rng.choice(["ref", "ref", "ref", "final", "sh_lv", "sh_rv", "sh_base", "sh_final", "mk", "refup", "sh_up"])
        if route in ("refup", "sh_up") and k + 1 >= len(chain):
            route = "ref"
        if route in ("final", "sh_final", "mk"):
            dyn = chain[k]
        elif route in ("refup", "sh_up"):
            # the argument's static type is the next class of the chain; its dynamic class is that class or below
            dyn = rng.choice(cov[chain[k + 1]]) if rng.random() < 0.5 else chain[k + 1]
        else:
            dyn = rng.choice(cov[chain[k]]) if rng.random() < 0.7 else chain[k]
        s.vmake(h, k, route, dyn)
        handles[h] = (k, dyn, route.startswith("sh") or route == "mk")
        return h

    def derive():
        if not handles:
            return
        src = rng.choice(sorted(handles))
        k, dyn, shared = handles[src]
        route = rng.choice(["copy", "move", "conv", "convmove", "cast", "assign", "assignmove", "assignmove"])
        if route in ("copy", "move"):
            k2 = k
        elif route in ("conv", "convmove", "assign", "assignmove"):
            k2 = rng.randrange(0, k + 1)
        else:
            ok = [j for j in range(k, len(chain)) if chain[j] in anc[dyn]]
            k2 = rng.choice(ok)
        h = nexth[0]
        nexth[0] += 1
        s.vderive(h, src, route, k2)
        handles[h] = (k2, dyn, shared)

    def use():
        m, shape, vp = rng.choice([x for x in declared if set(x[1]) <= set("PRQN")])
        want_shared = "Q" in shape
        pool = [h for h, (k, dyn, sh) in handles.items() if sh == want_shared]
        if not pool:
            return
        hs = [rng.choice(pool) for _ in vp]
        s.vcall(m, hs)
    for phase in range(rng.randrange(1, 4)):
        for _ in range(rng.randrange(3, 10)):
            x = rng.random()
            if x < 0.35 or not handles:
                make()
            elif x < 0.55:
                derive()
            elif x < 0.65:
                s.vget(rng.choice(sorted(handles)))
            elif x < 0.7 and len(handles) > 2:
                h = rng.choice(sorted(handles))
                s.vdrop(h)
                del handles[h]
            else:
                use()
        # an update that moves things: a new method (slots change) and / or newly registered classes
        # (new type ids: the hash and the pointer vectors change), then everything is used again
        if extra and rng.random() < 0.7:
            declare(*extra.pop(0))
        for _ in range(rng.randrange(0, 3)):
            if late_recs:
                c, bases = late_recs.pop()
                s.cls(c, bases)
                for v in classes:
                    if v in anc[c]:
                        cov[v] = cov[v] + [c]
        s.update()
        for _ in range(rng.randrange(2, 6)):
            use()
        for h in sorted(handles)[:3]:
            s.vget(h)
    s.table(1)
    return s


def bare_vptr_script(rng, sid, policies, early):
    """Handles where nothing has been dispatched yet.  early = False: classes but NO method at all (the dispatch data is
    empty and every v-table pointer is null although every class is registered): handles by every route, read back.
    early = True (indirect policies): handles for the exact static type are created BEFORE the first update and between a
    registration and the next update, then used after the update."""
    n = rng.randrange(3, 8)
    classes, edges, _, _, abstract, kind = S.random_registry(rng, n, 0, 1, 0)
    anc = S.anc_closure(edges, classes)
    cov = {c: [x for x in classes if c in anc[x]] for c in classes}
    chain = pick_chain(rng, classes, anc)
    s = S.Script(sid, [[p] for p in policies])
    for k, c in enumerate(chain):
        s.node(k, c)
    for c, bases in S.presentation(rng.choice(["direct", "complete"]), classes, edges, rng):
        s.cls(c, bases)
    h = [0]
    shared = {}

    def make(k, routes, dyn):
        h[0] += 1
        route = rng.choice(routes)
        s.vmake(h[0], k, route, dyn)
        shared[h[0]] = route.startswith("sh") or route == "mk"
        return h[0]

    def exact(k):
        return make(k, ["ref", "final", "sh_lv", "sh_rv", "sh_final", "mk"], chain[k])

    arity = {}

    def use(mp, mq, x):     # a method taking virtual_ptr for plain handles, virtual_shared_ptr for shared ones
        m = mq if shared[x] else mp
        s.vcall(m, [x] * arity[m])
    root = rng.choice(sorted(anc[chain[0]]))

    def declare(mp, mq, shp="P", shq="Q"):
        for m, sh in ((mp, shp), (mq, shq)):
            arity[m] = len(sh)
            s.method(m, sh, [root] * len(sh))
            for d in range(rng.randrange(1, 4)):
                s.defn(m, d, [rng.choice(cov[root]) for _ in sh])
    if not early:
        s.update()
        hs = []
        for _ in range(rng.randrange(3, 9)):
            k = rng.randrange(len(chain))
            hs.append(exact(k) if rng.random() < 0.5 else make(k, ["ref", "sh_lv", "sh_base"], rng.choice(cov[chain[k]])))
        for x in hs:
            s.vget(x)
        # now methods appear: handles made so far are stale under direct policies, usable under indirect ones
        declare(1, 2)
        s.update()
        for x in hs:
            use(1, 2, x)
        return s
    declare(1, 2)
    hs = [exact(rng.randrange(len(chain))) for _ in range(rng.randrange(2, 6))]
    s.update()
    for x in hs:
        use(1, 2, x)
        s.vget(x)
    declare(3, 4, "R", "QQ")      # catalogs change: not fresh any more
    more = [exact(rng.randrange(len(chain))) for _ in range(rng.randrange(1, 4))]
    s.update()
    for x in hs + more:
        use(3, 4, x)
        use(1, 2, x)
    return s


def check_C09(tier, seed):
    TCFG = "TraceYomm2_dispatch.cfg"
    t0 = time.time()
    out = F.Outcome("C09")
    rng = random.Random(seed)
    exe = C.build_dyn()
    # design level: handle validity across updates on the behavioural model
    F.model_check(out, "VptrMC.tla", "VptrMC.cfg")
    scs = [vptr_script(rng, "vp-%d" % i, VP_POLICIES) for i in range(400 if tier == "quick" else 8000)]
    F.execute_and_validate("C09", exe, scs, out, "c09", TCFG)
    bare = [bare_vptr_script(rng, "vp-bare-%d" % i, VP_POLICIES, False) for i in range(60 if tier == "quick" else 1000)]
    bare += [bare_vptr_script(rng, "vp-early-%d" % i, ["ind", "indvec", "indfast"], True) for i in range(60 if tier == "quick" else 1000)]
    F.execute_and_validate("C09", exe, bare, out, "c09-bare", TCFG)
    plain_programs("C09", rng, out, 4 if tier == "quick" else 40, tier)
    # real class hierarchies (multiple and virtual inheritance): virtual_ptr / virtual_shared_ptr arguments built by four routes;
    # every definition looks at the objects it receives
    lat = F.gen_registries("GenLat_P4any.cfg", out, module="GenLat.tla")
    real_class_programs("C09", lat, rng, out, 10 if tier == "quick" else 80, tier)

    def other_object(ev):
        if ev.get("o", -1) >= 0 and ev["recv"]:
            ev["recv"][0] += 1
            return True
        return False

    def flip_vcall(ev):
        ev["o"] = 0 if ev["o"] != 0 else -1
        return True
    for s in scs[:30]:
        if F.selftest_corruption(exe, s, out, mutate_first("vcall", flip_vcall), "outcome of a call through a virtual_ptr altered", TCFG, must=False):
            break
    for s in scs[:30]:
        if F.selftest_corruption(exe, s, out, mutate_first("vcall", other_object), "identity of the object received through a virtual_ptr altered", TCFG, must=False):
            break
    out.need_selftest = True
    used = out.action_counts.get("vcall", 0)
    skipped = out.action_counts.get("vskip", 0)
    if used == 0 or skipped == 0:
        raise C.ToolFailure("vacuous: no call through a handle / no stale direct handle encountered")
    return F.report("C09", tier, seed, out, t0, LEVEL,
                    rule="a case = one script on a random lattice under one policy: virtual_ptr / virtual_shared_ptr handles are created by every "
                         "route (reference to exact type, base reference to derived object, final, shared_ptr lvalue / rvalue / most-derived, "
                         "make_virtual_shared), copied, moved, converted, cast, used in calls to methods taking virtual_ptr, const virtual_ptr& and "
                         "virtual_shared_ptr parameters, across updates that add methods; every call through handles must equal the oracle for the "
                         "pointees' classes and deliver the original objects; distinct_nontrivial = distinct scripts",
                    assumptions=ASSUME_DYN + ["the C++ static type of a handle is a node of a 4-class chain whose static type ids are run-time values mapped onto a chain of the registered lattice"],
                    extra_cov={"policies": VP_POLICIES, "calls_through_handles": used, "stale_direct_handles_not_used": skipped})


CHECKED = ["chk", "ind", "dbg", "rem"]


def unknown_scripts(rng, count, policies):
    """One class left out, at every place it can occur."""
    scs = []
    for i in range(count):
        n = rng.randrange(3, 8)
        classes, edges, methods, defs, abstract, kind = S.random_registry(rng, n, rng.randrange(1, 4), 3, 4,
                                                                          shapes=["V", "W", "S", "P", "VV", "VNV", "VP", "WS", "PP", "VVV", "PVP"])
        if not methods:
            continue
        anc = S.anc_closure(edges, classes)
        x = rng.choice(classes)               # the class that is not registered
        mode = rng.choice(["update", "call", "call", "vptr"])
        s = S.Script("unk-%d-%s" % (i, mode), [[p] for p in policies])
        mentioned_in_methods = any(x in vp for _, _, vp in methods) or any(x in vp for _, _, vp in defs)
        derived_from_x = [c for c in classes if x in anc[c] and c != x]
        if mode == "update":
            # x is mentioned by a base list, a method parameter or a definition parameter
            for c, bases in S.presentation("direct", classes, edges, rng):
                if c != x:
                    s.cls(c, bases)
            for m, sh, vp in methods:
                s.method(m, sh, vp)
            for m, d, vp in defs:
                s.defn(m, d, vp)
            s.update()
            s.update()
        else:
            # x is mentioned nowhere in the catalogs: it only shows up as the dynamic class of an argument
            keep = [c for c in classes if x not in anc[c] or c == x]   # drop classes derived from x: they would list x as a base
            keep_set = set(keep) - {x}
            methods = [(m, sh, vp) for m, sh, vp in methods if all(v in keep_set for v in vp)]
            defs = [(m, d, vp) for m, d, vp in defs if any(m == mm for mm, _, _ in methods) and all(v in keep_set for v in vp)]
            # a policy with classes but no method at all: update leaves the dispatch data empty and every v-table pointer null,
            # the unregistered class must be diagnosed all the same
            nometh = mode == "vptr" and rng.random() < 0.35
            if nometh:
                methods, defs = [], []
            elif not methods:
                continue
            chain_root = None
            if mode == "vptr":
                # node 0 = a registered base of x (or x itself when it has none), node 1 = x
                bases_of_x = sorted(anc[x] - {x})
                chain_root = rng.choice(bases_of_x) if bases_of_x else None
                if chain_root is not None:
                    s.node(0, chain_root)
                    s.node(1, x)
                else:
                    s.node(0, x)
            for c, bases in S.presentation("direct", keep, [(d, b) for d, b in edges if d in keep_set and b in keep_set], rng):
                if c != x:
                    s.cls(c, bases)
            for m, sh, vp in methods:
                s.method(m, sh, vp)
            for m, d, vp in defs:
                s.defn(m, d, vp)
            s.update()
            if not nometh:
                s.layout()
            if mode == "call":
                for m, sh, vp in methods:
                    acceptable = [i for i, v in enumerate(vp) if v in anc[x]]   # positions where an x object can be passed in C++
                    for pos in acceptable:
                        t = [rng.choice([c for c in keep_set if v in anc[c]]) for v in vp]
                        t[pos] = x
                        s.call(m, t)
                        s.resolve(m, t) if False else None
                    s.table(m)      # later calls still dispatch
            else:
                h = 1
                if chain_root is not None:
                    s.vmake(h, 0, "ref", x); h += 1            # base reference to an object of the unregistered class
                    s.vmake(h, 1, "ref", x); h += 1            # exact static type, unregistered
                    s.vmake(h, 0, "refup", x); h += 1          # virtual_ptr<Base> from an lvalue of the unregistered derived type
                    s.vmake(h, 0, "sh_up", x); h += 1
                    s.vmake(h, 1, "final", x); h += 1
                    s.vmake(h, 0, "sh_lv", x); h += 1
                    s.vmake(h, 1, "sh_rv", x); h += 1
                    s.vmake(h, 1, "mk", x); h += 1
                    s.vmake(h, 0, "final", x); h += 1          # final with another dynamic type: method table error
                    s.vmake(h, 0, "sh_final", x); h += 1
                    other = [c for c in keep_set if chain_root in anc[c] and c != chain_root]
                    if other:
                        s.vmake(h, 0, "final", rng.choice(other)); h += 1
                else:
                    s.vmake(h, 0, "ref", x); h += 1
                    s.vmake(h, 0, "final", x); h += 1
                    s.vmake(h, 0, "mk", x); h += 1
                for m, sh, vp in methods:
                    s.table(m)
        scs.append(s)
    return scs


def check_C15(tier, seed):
    TCFG = "TraceYomm2_dispatch.cfg"
    t0 = time.time()
    out = F.Outcome("C15")
    rng = random.Random(seed)
    exe = C.build_dyn()
    F.model_check(out, "Yomm2MC.tla", "Yomm2MC_small.cfg" if tier == "quick" else "Yomm2MC_mid.cfg")   # UpdateUnknown reachable and consistent
    # histories in which classes go missing while still mentioned (update-time diagnosis), every checked policy
    hs = gen_histories("Yomm2MC_small.cfg", out)
    scs = [S.history_script("mcu-%d" % i, [[p] for p in CHECKED + ["stdd"]], h, shape_k=i) for i, h in enumerate(hs)]
    F.execute_and_validate("C15", exe, scs, out, "c15-mc", TCFG)
    scs = unknown_scripts(rng, 600 if tier == "quick" else 10000, CHECKED)
    F.execute_and_validate("C15", exe, scs, out, "c15-rnd", TCFG)
    # the other side of "always reported": a REGISTERED class must not be reported -- not even when the policy has no method at
    # all (every v-table pointer is null) or, for indirect handles of the exact static type, before the first update
    bare = [bare_vptr_script(rng, "c15-bare-%d" % i, CHECKED, False) for i in range(40 if tier == "quick" else 600)]
    bare += [bare_vptr_script(rng, "c15-early-%d" % i, ["ind"], True) for i in range(40 if tier == "quick" else 600)]
    F.execute_and_validate("C15", exe, bare, out, "c15-bare", TCFG)
    # classes without virtual functions: only `final` applies to them; an unregistered one must be reported there
    plain_programs("C15", rng, out, 4 if tier == "quick" else 40, tier)
    n_unknown_upd = 0
    for s in scs[:40]:
        def wrong_class(ev):
            if ev.get("then") == "unknown":
                ev["c"] = ev["c"] + 1
                return True
            return False
        if F.selftest_corruption(exe, s, out, mutate_first("call", wrong_class), "class carried by a recorded unknown-class report altered", TCFG, must=False):
            break
    out.need_selftest = True
    return F.report("C15", tier, seed, out, t0, LEVEL,
                    rule="a case = one registry with one class left out under one checked policy (checked hash + error output, incl. the rebound "
                         "stock debug policy): mentioned by a base list / method / definition (update must report it), or appearing only as the dynamic "
                         "class of an argument at each virtual position by reference, pointer, shared_ptr and virtual_ptr, or as the pointee of every "
                         "virtual_ptr construction route; final with another dynamic type; distinct_nontrivial = distinct scripts",
                    assumptions=ASSUME_DYN + ["'no table read first' is decided on the v-table reads reported by hook H2: reads made for earlier, registered arguments of the same call are legal"],
                    extra_cov={"policies": CHECKED})


# ---------------------------------------------------------------------------
def check_C18(tier, seed):
    t0 = time.time()
    out = F.Outcome("C18")
    rng = random.Random(seed)
    exe = C.build_simple("sl", "sl.cpp")
    MOD, TCFG = "TraceStaticList.tla", "TraceStaticList.cfg"
    # the whole reachable state space over 6 nodes, any history length (hist hidden by a VIEW)
    F.model_check(out, "StaticList.tla", "StaticList_full6.cfg")
    cfg = "StaticList_N3L6.cfg" if tier == "quick" else "StaticList_N4L7.cfg"
    r = C.tlc_model("StaticList.tla", cfg)
    out.model_states += r.generated
    out.model_distinct += r.distinct
    hs = r.printed()
    out.model_runs.append({"module": "StaticList.tla", "cfg": cfg, "generated": r.generated, "distinct": r.distinct, "emitted": len(hs), "ok": r.ok})
    if not r.ok:
        raise F.ModelViolation("StaticList.tla", cfg, r.out)
    clients = ["node", "class", "method", "definition"]

    def body(h):
        ls = []
        for op in h:
            ls.append({"push": "p %d", "remove": "r %d"}.get(op["op"], "c") % op["n"] if op["op"] != "clear" else "c")
        return ls
    scs = []
    for i, h in enumerate(hs):
        for cl in (clients if tier == "thorough" or i % 4 == 0 else ["node", clients[1 + i % 3]]):
            scs.append(F.RawScript("h%d-%s" % (i, cl), body(h), cl))
    F.execute_and_validate("C18", exe, scs, out, "c18-mc", TCFG, trace_module=MOD)
    # V: long random sequences over 8 nodes
    rs = []
    for i in range(60 if tier == "quick" else 600):
        inl, ls = [], []
        for _ in range(rng.randrange(50, 400 if tier == "quick" else 3000)):
            x = rng.random()
            free = [n for n in range(1, 9) if n not in inl]
            if free and (x < 0.5 or not inl):
                n = rng.choice(free)
                inl.append(n)
                ls.append("p %d" % n)
            elif x < 0.97:
                # first, middle, last, only: whatever position the chosen node happens to have
                n = rng.choice([inl[0], inl[-1], rng.choice(inl)])
                inl.remove(n)
                ls.append("r %d" % n)
            else:
                inl = []
                ls.append("c")
        rs.append(F.RawScript("rnd%d" % i, ls, rng.choice(clients)))
    F.execute_and_validate("C18", exe, rs, out, "c18-rnd", TCFG, trace_module=MOD)

    def swap_iter(ev):
        if len(ev["iter"]) >= 2:
            ev["iter"][0], ev["iter"][1] = ev["iter"][1], ev["iter"][0]
            return True
        return False

    def break_link(ev):
        if ev["links"] and ev["first"]:
            ev["prev"][ev["first"] - 1] = 0
            return True
        return False
    F.selftest_corruption(exe, rs[0], out, mutate_first("remove", swap_iter), "iteration order of a recorded catalog altered", TCFG, trace_module=MOD, must=False)
    nodesc = [s for s in rs if s.header_extra == "node"][:1]
    if nodesc:
        F.selftest_corruption(exe, nodesc[0], out, mutate_first("push", break_link), "prev link of the first node altered in a recorded state", TCFG, trace_module=MOD)
    out.need_selftest = True
    return F.report("C18", tier, seed, out, t0, LEVEL,
                    rule="a case = one sequence of push / remove / clear executed on a real static_list (instrumented node type exposing its links, "
                         "or the library's own registration objects: class_declaration, method, definition_info with destructor-driven removal); "
                         "after every operation iteration order, size(), empty() and the links must equal the specification's state; "
                         "distinct_nontrivial = distinct (sequence, client) scripts",
                    assumptions=["static_list nodes live in zero-initialised storage (as the static objects the library links do)",
                                 "TLC 1.8.0"],
                    extra_cov={"clients": clients})


# ---------------------------------------------------------------------------
def id_family(rng, kind, n):
    M64 = (1 << 64) - 1
    ids = set()
    if kind == "clustered":        # type_info-like addresses: a base plus small multiples of 16/24/32
        base = rng.randrange(1 << 40, 1 << 47) & ~0xF
        stride = rng.choice([16, 24, 32, 40, 64])
        while len(ids) < n:
            ids.add(base + stride * rng.randrange(0, 4 * n + 4))
    elif kind == "stride":         # regular strides
        stride = 1 << rng.randrange(0, 40)
        base = rng.randrange(0, 1 << 20)
        ids = {(base + stride * i) & M64 for i in range(n)}
    elif kind == "high":           # ids that differ only in high bits
        low = rng.randrange(0, 1 << 16)
        while len(ids) < n:
            ids.add(((rng.randrange(0, 1 << 16) << 48) | low) & M64)
    elif kind == "low":            # ids that differ only in low bits
        high = rng.randrange(0, 1 << 40) << 24
        while len(ids) < n:
            ids.add(high | rng.randrange(0, 1 << 12))
    elif kind == "small":
        ids = set(rng.sample(range(0, 4 * n + 8), n))
    else:                           # random 64-bit values
        while len(ids) < n:
            ids.add(rng.randrange(0, M64))
    ids.discard(M64)                # invalid_type is not a type id
    return sorted(ids)


def hash_script(rng, sid, policy, tier):
    M64 = (1 << 64) - 1
    kind = rng.choice(["clustered", "clustered", "stride", "high", "low", "small", "random"])
    big = 400 if tier == "thorough" else 120
    n = rng.choice([0, 1, 2, 3, 5, 8, 13, 21, 40, 80, big])
    if kind == "random":
        n = min(n, 40)              # random 64-bit ids exhaust the search above a few dozen (allowed: reported)
    pool = id_family(rng, kind, max(n, 1) * 2)
    live = []
    lines = []
    removed = []
    budget = rng.choice([0, 0, 0, 1, 2, 3, 5])
    lines.append("b %d" % budget)
    for upd in range(rng.randrange(1, 7)):
        # grow / shrink
        target = rng.randrange(0, n + 1) if upd else n
        cand = [x for x in pool if x not in live]
        rng.shuffle(cand)
        while len(live) < target and cand:
            x = cand.pop()
            live.append(x)
            lines.append("r %d" % x)
        while len(live) > target:
            x = live.pop(rng.randrange(len(live)))
            removed.append(x)
            lines.append("x %d" % x)
        lines.append("u")
        # look-ups: registered ids, neighbours, single bit flips, ids removed by an earlier update, random ids
        probes = set()
        for x in rng.sample(live, min(len(live), 12)):
            probes.add(x)
            probes.add((x + 1) & M64)
            probes.add((x - 1) & M64)
            probes.add(x ^ (1 << rng.randrange(64)))
            probes.add((x + 16) & M64)
        for x in removed[-6:]:
            probes.add(x)
        for _ in range(10):
            probes.add(rng.randrange(0, M64))
        probes.discard(M64)
        for x in sorted(probes):
            lines.append("l %d" % x)
    return F.RawScript(sid, lines, policy)


def check_C05(tier, seed):
    t0 = time.time()
    out = F.Outcome("C05")
    rng = random.Random(seed)
    exe = C.build_simple("hash", "hash.cpp")
    MOD, TCFG = "TraceHash.tla", "TraceHash.cfg"
    # mechanism model: every multiplier sequence, persistent max index across updates, budget exhaustion
    F.model_check(out, "Hash.tla", "Hash_W4.cfg")
    if tier == "thorough":
        F.model_check(out, "Hash.tla", "Hash_W5.cfg", timeout=3000)
    scs = []
    pols = ["fast", "chk", "ind", "indfast"]
    for i in range(240 if tier == "quick" else 4000):
        scs.append(hash_script(rng, "h%d" % i, pols[i % 4] if i % 3 else rng.choice(["chk", "ind"]), tier))
    F.execute_and_validate("C05", exe, scs, out, "c05", TCFG, trace_module=MOD)
    # classes known under SEVERAL ids (many-to-one type_index): every id of a class must be hashed and lead to that class's
    # v-table -- observed through dispatch, with objects created under every registered id, under the hashed projected policy
    dexe = C.build_dyn()
    multi = random_scripts(rng, 250 if tier == "quick" else 4000, ["prj", "fast", "chk"], ("T", "CT"), max_n=10,
                           style=lambda r: r.choice(["random", "random", "complete", "direct"]))
    F.execute_and_validate("C05", dexe, multi, out, "c05-multi-id", "TraceYomm2_dispatch.cfg")
    counts = {"hashfail": 0, "unknown": 0, "ok": 0}
    # re-run a sample to count what happened (coverage; not a verdict)
    sp, tp = F.run_dyn(exe, "".join(s.text() for s in scs[:200]), "c05-count")
    with open(tp) as f:
        for ln in f:
            if '"e":"hq"' in ln:
                counts["hashfail" if '"res":"hashfail"' in ln else "ok"] += 1
            elif '"res":"unknown"' in ln:
                counts["unknown"] += 1
    if counts["hashfail"] == 0 or counts["unknown"] == 0:
        raise C.ToolFailure("vacuous: search exhaustion or unknown-id reports never occurred (%s)" % counts)

    def collide(ev):
        if ev.get("res") == "ok" and len(ev["rows"]) >= 2:
            ev["rows"][0][1] = ev["rows"][1][1]
            return True
        return False

    def out_of_range(ev):
        if ev.get("res") == "ok" and ev["rows"]:
            ev["rows"][0][1] = ev["size"]
            return True
        return False

    def wrong_id(ev):
        if ev.get("res") == "unknown":
            ev["rid"] = str(int(ev["rid"]) + 1)
            return True
        return False
    for mut, label in ((collide, "two registered ids given the same index in a recorded hash"),
                       (out_of_range, "an index equal to the vector size in a recorded hash"),
                       (wrong_id, "id carried by a recorded unknown-class report altered")):
        for s in scs[:80]:
            kind = "hl" if mut is wrong_id else "hq"
            if F.selftest_corruption(exe, s, out, mutate_first(kind, mut), label, TCFG, trace_module=MOD, must=False):
                break
    out.need_selftest = True
    return F.report("C05", tier, seed, out, t0, LEVEL,
                    rule="a case = one history of 1-6 updates over one id family (clustered pointers, regular strides, high-bits-only, low-bits-only, "
                         "small integers, random 64-bit; 0 to %d ids) under one hashed policy (fast / checked, direct / indirect) and one search budget: "
                         "after each update every registered id's index, the vector size and the stored pointer are recorded (hash treated as an unknown "
                         "function, contract PerfectOn) and unregistered ids (neighbours, bit flips, removed ids, random) are looked up under the checked "
                         "policies; distinct_nontrivial = distinct scripts" % (400 if tier == "thorough" else 120),
                    assumptions=["64-bit arithmetic of the hash is not modelled by TLC (32-bit integers): the W-bit model covers the search logic and its persistent state, "
                                 "the real arithmetic is covered by validating the contract on recorded executions",
                                 "the id UINTPTR_MAX (invalid_type, also the empty-bucket sentinel) is not a type id and is never generated"],
                    extra_cov={"policies": pols, "sampled_outcomes": counts})


# ---------------------------------------------------------------------------
FUNDAMENTAL = ["void", "bool", "char", "int", "float", "double", "short", "long", "signed char", "unsigned int", "unsigned long",
               "long long", "unsigned char", "long double", "wchar_t", "char16_t", "char32_t"]
STD_ENTITIES = ["std::string", "std::size_t", "std::ostream", "std::type_info", "std::nullptr_t"]
STD_TEMPLATES = ["std::vector", "std::shared_ptr", "std::unique_ptr", "std::pair", "std::map", "std::function"]
YOREL_TEMPLATES = ["yorel::yomm2::virtual_", "yorel::yomm2::virtual_ptr", "yorel::yomm2::method"]
YOREL_ENTITIES = ["yorel::yomm2::policy::debug", "yorel::yomm2::default_policy"]


def gen_type(rng, classes, templates, depth, used):
    """A type description from the grammar: class names, fundamental types, pointers, references,
    templates with arguments, function types, std:: and yorel:: entities.  `used` collects the class
    names (not template names) put in: these are the names that must be kept."""
    x = rng.random()
    if depth <= 0 or x < 0.30:
        c = rng.choice(classes)
        used.add(c)
        return c
    if x < 0.45:
        return rng.choice(FUNDAMENTAL)
    if x < 0.52:
        return rng.choice(STD_ENTITIES + YOREL_ENTITIES)
    if x < 0.64:
        return gen_type(rng, classes, templates, depth - 1, used) + rng.choice(["*", "&", "&&", "**", "*&"])
    if x < 0.86:
        t = rng.choice(STD_TEMPLATES + YOREL_TEMPLATES + templates)
        args = [gen_type(rng, classes, templates, depth - 1, used) for _ in range(rng.randrange(1, 4))]
        if rng.random() < 0.3:      # non-type template arguments, as a demangler prints them: they name nothing
            args.insert(rng.randrange(len(args) + 1), rng.choice(["3", "4ul", "-2l", "7u", "16", "1ull", "0x10", "42l"]))
        sp = rng.choice(["", "", " "])
        inner = ", ".join(args)
        if inner.endswith(">"):
            inner += rng.choice(["", " "])
        return "%s%s<%s>" % (t, sp, inner)
    ret = gen_type(rng, classes, templates, depth - 1, used)
    params = [gen_type(rng, classes, templates, depth - 1, used) for _ in range(rng.randrange(0, 4))]
    return "%s (%s)" % (ret, ", ".join(params)) if rng.random() < 0.6 else "%s (*)(%s)" % (ret, ", ".join(params))


def random_qname(rng, idents, maxdepth):
    return "::".join(rng.choice(idents) for _ in range(rng.randrange(1, maxdepth + 1)))


def check_C19(tier, seed):
    t0 = time.time()
    out = F.Outcome("C19")
    rng = random.Random(seed)
    exe = C.build_simple("fwd", "fwd.cpp")
    MOD, TCFG = "TraceFwd.tla", "TraceFwd.cfg"
    # mechanism model: the writer's prefix bookkeeping is well formed on every name set of the universe
    F.model_check(out, "FwdDecl.tla", "FwdDecl_broken.cfg", expect_violation=True)
    r = C.tlc_model("FwdDecl.tla", "FwdDecl_mid.cfg")
    out.model_states += r.generated
    out.model_distinct += r.distinct
    sets = r.printed()
    out.model_runs.append({"module": "FwdDecl.tla", "cfg": "FwdDecl_mid.cfg", "generated": r.generated, "distinct": r.distinct, "emitted": len(sets), "ok": r.ok})
    if not r.ok:
        raise F.ModelViolation("FwdDecl.tla", "FwdDecl_mid.cfg", r.out)
    if tier == "thorough":
        F.model_check(out, "FwdDecl.tla", "FwdDecl_mid4.cfg", timeout=3000)
        F.model_check(out, "FwdDecl.tla", "FwdDecl_big.cfg", timeout=3000)
    scs = []
    for i, s in enumerate(sets):
        names = ["".join(chars) for chars in s["names"]]
        scs.append(F.RawScript("set%d" % i, ["n " + n for n in names]))
    F.execute_and_validate("C19", exe, scs, out, "c19-sets", TCFG, trace_module=MOD)
    # V: larger random sets, identifiers that are string prefixes of one another, depth <= 6
    idents = ["a", "ab", "abc", "b", "ba", "a1", "a_b", "Ab", "x", "xy", "N", "Ns", "ns", "ns1", "detail"]
    # class names that merely contain "std::" / "yorel::" (not at the start) or start with the letters std / yorel
    tricky = ["nonstd::ring", "mystd::a", "lib::std::d", "vendor::yorel::widget", "my_yorel::f", "stdx::e", "yorelx::g", "a::std::b::c"]
    rs = []
    for i in range(400 if tier == "quick" else 8000):
        n = rng.randrange(1, 41)
        names = sorted({random_qname(rng, idents, 6) for _ in range(n)} | ({rng.choice(tricky)} if rng.random() < 0.3 else set()))
        rng.shuffle(names)
        rs.append(F.RawScript("rnd%d" % i, ["n " + x for x in names]))
    F.execute_and_validate("C19", exe, rs, out, "c19-rnd", TCFG, trace_module=MOD)
    # extraction from type descriptions
    xs = []
    for i in range(600 if tier == "quick" else 12000):
        classes = sorted({random_qname(rng, idents + ["Animal", "Dog", "key", "Matrix"], 3) for _ in range(rng.randrange(1, 6))})
        if rng.random() < 0.35:
            classes.append(rng.choice(tricky))
        classes = [c for c in classes if not c.startswith("std::") and not c.startswith("yorel::")]
        templates = [random_qname(rng, ["tpl", "Box", "ns", "a"], 2) + "_t" for _ in range(2)]
        used = set()
        lines = []
        for _ in range(rng.randrange(1, 4)):
            lines.append("t " + gen_type(rng, classes, templates, rng.randrange(1, 5), used))
        lines += ["k " + c for c in sorted(used)]
        xs.append(F.RawScript("ext%d" % i, lines))
    F.execute_and_validate("C19", exe, xs, out, "c19-ext", TCFG, trace_module=MOD)

    def drop_close(ev):
        for i, t in enumerate(ev["tokens"]):
            if t[0] == "c":
                del ev["tokens"][i]
                return True
        return False

    def rename(ev):
        for t in ev["tokens"]:
            if t[0] == "d":
                t[1] = t[1] + "x"
                return True
        return False
    for s in rs[:40]:
        if F.selftest_corruption(exe, s, out, mutate_first("fwd", drop_close), "one closing brace removed from a recorded output", TCFG, trace_module=MOD, must=False):
            break
    F.selftest_corruption(exe, rs[0], out, mutate_first("fwd", rename), "one declared class renamed in a recorded output", TCFG, trace_module=MOD)
    out.need_selftest = True
    return F.report("C19", tier, seed, out, t0, LEVEL,
                    rule="a case = one set of qualified names (every set of <=3 names over 39 names built from identifiers a, ab, b at <=3 levels, emitted "
                         "by TLC; random sets of up to 40 names, depth <=6) or one batch of type descriptions drawn from the grammar (class names, "
                         "fundamental types, pointers, references, templates with arguments, function types, std:: and yorel:: entities), passed to the "
                         "real generator; the written text is tokenised strictly and must be accepted with exactly the requested / generated class names; "
                         "distinct_nontrivial = distinct scripts",
                    assumptions=["cv-qualifiers and '(anonymous namespace)' are outside the grammar the property lists and are not generated",
                                 "the expected names of an extraction run are the class names the stimulus grammar inserted (known by construction, not re-parsed)"],
                    extra_cov={"name_sets_from_tlc": len(sets)})


# ---------------------------------------------------------------------------
STATIC_SHAPES = {1: ["sV"], 2: ["sVV", "sVNV", "sNVVN"], 3: ["sVVV", "sVNVNV", "sPVP"], 4: ["sVVVV"]}


def offsets_script(rng, sid, policies, n=None):
    """A registry whose methods are compiled with generated static offsets: after update the generator
    writes the offsets, the program loads them, dispatches; then single numbers are perturbed."""
    n = n or rng.randrange(3, 9)
    classes, edges, _, _, abstract, kind = S.random_registry(rng, n, 0, 1, 0)
    anc = S.anc_closure(edges, classes)
    cov = {c: [x for x in classes if c in anc[x]] for c in classes}
    s = S.Script(sid, [[p] for p in policies])
    for c, bases in S.presentation(rng.choice(["direct", "complete", "random"]), classes, edges, rng):
        s.cls(c, bases)
    methods = []
    used = set()
    m = 1
    for _ in range(rng.randrange(1, 5)):
        ar = rng.choice([1, 2, 2, 3, 3, 4])
        cands = [x for x in STATIC_SHAPES[ar] if x not in used]
        if not cands:
            continue
        shape = rng.choice(cands)
        used.add(shape)
        vp = [rng.choice(classes) for _ in range(ar)]
        s.method(m, shape, vp)
        for d in range(rng.randrange(0, 4)):
            s.defn(m, d, [rng.choice(cov[v]) for v in vp])
        methods.append((m, shape, vp))
        m += 1
    # ordinary methods next to them (they shift slots)
    for _ in range(rng.randrange(0, 3)):
        vp = [rng.choice(classes)]
        s.method(m, "V", vp)
        s.defn(m, 0, [rng.choice(cov[vp[0]])])
        methods.append((m, "V", vp))
        m += 1
    s.update()
    s.layout()
    s.write_offsets()
    for mm, shape, vp in methods:
        if shape.startswith("s"):
            s.load_offsets(mm)
            s.table(mm)
            s.ctable(mm)
        else:
            s.table(mm)
    # "rejects any other": one number at a time
    for mm, shape, vp in methods:
        if not shape.startswith("s"):
            continue
        ar = len(vp)
        for _ in range(2):
            which = rng.choice([0, 1]) if ar > 1 else 0
            idx = rng.randrange(ar if which == 0 else ar - 1)
            s.load_offsets(mm, which, idx, rng.choice([1, 2, 3]))
            s.table(mm)
        s.load_offsets(mm)
        s.table(mm)
    # a second update (a method added): the generator is run again, offsets may have moved
    vp = [rng.choice(classes)]
    s.method(m, "NV", vp)
    s.defn(m, 0, [rng.choice(cov[vp[0]])])
    s.update()
    s.layout()
    s.write_offsets()
    for mm, shape, vp in methods:
        if shape.startswith("s"):
            s.load_offsets(mm)
            s.table(mm)
    return s


def check_C12(tier, seed):
    TCFG = "TraceYomm2_dispatch.cfg"
    t0 = time.time()
    out = F.Outcome("C12")
    rng = random.Random(seed)
    exe = C.build_dyn()
    F.model_check(out, "Offsets.tla", "Offsets.cfg")
    F.model_check(out, "Offsets.tla", "Offsets_interleaved.cfg", expect_violation=True)
    policies = ["vec", "fast", "map", "chk", "ind", "dbg", "rem", "stdd", "stdr"]
    scs = [offsets_script(rng, "off-%d" % i, policies) for i in range(400 if tier == "quick" else 8000)]
    F.execute_and_validate("C12", exe, scs, out, "c12", TCFG)

    def shift(ev):
        for row in ev["rows"]:
            if row[1]:
                row[1][-1] += 1
                return True
        return False
    F.selftest_corruption(exe, scs[0], out, mutate_first("offsets", shift), "one number altered in the recorded generator output", TCFG)
    # the emitted header compiled for real: generator stage, then the same source built with the generated slots.hpp
    lat = F.gen_registries("GenLat_P4any.cfg", out, module="GenLat.tla")
    real_class_programs("C12", lat, rng, out, 4 if tier == "quick" else 40, tier, per=6, staged=(2,))
    c = out.action_counts
    if not c.get("offsets") or not c.get("sload"):
        raise C.ToolFailure("vacuous: generator output never recorded")
    return F.report("C12", tier, seed, out, t0, LEVEL,
                    rule="a case = one registry with methods of arity 1..4 compiled with static offsets (mutable static_offsets<> specialisations), under "
                         "one policy: the numbers written by the real generator must equal the installed slots / strides position by position; loaded "
                         "into the program they must dispatch like the run-time offsets (full outcome tables); under checked policies every single "
                         "perturbed number must be reported as a static slot / stride error on every call; repeated after a second update; "
                         "distinct_nontrivial = distinct scripts",
                    assumptions=ASSUME_DYN + ["the generated header is emulated by static_offsets<> specialisations with mutable arrays filled with the parsed numbers; "
                                              "compiling the emitted text is not part of this check"],
                    extra_cov={"policies": policies})


# ---------------------------------------------------------------------------
def encode_script(rng, sid, policies):
    """update, then encode -> lay out -> forget -> decode, then observe every method again."""
    n = rng.randrange(2, 10)
    classes, edges, methods, defs, abstract, kind = S.random_registry(rng, n, rng.randrange(1, 5), 3, 5,
                                                                      shapes=["V", "NV", "VN", "VV", "VNV", "NVVN", "VVV", "VNVNV", "W", "S", "WS"])
    s = S.Script(sid, [[p] for p in policies])
    style = rng.choice(["complete", "complete+self", "direct", "random", "random"])
    for c, bases in S.presentation(style, classes, edges, rng):
        s.cls(c, bases, abstract=(c in abstract))
    for m, sh, vp in methods:
        s.method(m, sh, vp)
    for m, d, vp in defs:
        s.defn(m, d, vp)
    s.update()
    for m, sh, vp in methods:
        s.table(m)
    s.encode_decode()
    for m, sh, vp in methods:
        s.table(m)
        s.ctable(m)
        s.nexts(m)
    return s


def check_C13(tier, seed):
    TCFG = "TraceYomm2_dispatch.cfg"
    t0 = time.time()
    out = F.Outcome("C13")
    rng = random.Random(seed)
    exe = C.build_dyn()
    F.model_check(out, "Decode.tla", "Decode_fixed.cfg")
    F.model_check(out, "Decode.tla", "Decode_asis.cfg", expect_violation=True)
    policies = ["stdd", "stdr", "stdmap"]
    scs = [encode_script(rng, "enc-%d" % i, policies) for i in range(500 if tier == "quick" else 10000)]
    F.execute_and_validate("C13", exe, scs, out, "c13", TCFG)
    # "source text that the supported compilers accept": the emitted text of a sample of scripts is compiled
    # (declaration + initialisers) by g++ and clang++; a rejected text is a violation
    nsample = 6 if tier == "quick" else 60
    sample = scs[:nsample]
    one = [S.Script(s.sid, [["stdr"]]) for s in sample]
    for a, b in zip(one, sample):
        a.lines = b.lines
    d = C.scratch()
    spath = os.path.join(d, "c13-dump.script")
    with open(spath, "w") as f:
        f.write("".join(s.text() for s in one))
    rc, dump = C.sh([exe, spath, os.path.join(d, "c13-dump.ndjson")], timeout=600, env={"DYN_DUMP_ENC": "1"})
    texts = [t for t in dump.split("    static struct {")[1:]]
    compiled = 0
    for i, t in enumerate(texts):
        tu = ("#include <cstdint>\nnamespace yorel { namespace yomm2 { template<class P, class D> void decode_dispatch_data(D&) {} } }\n"
              "struct stdr {};\nvoid emitted_%d() {\n    static struct {%s\n}\n" % (i, t))
        src = os.path.join(d, "c13-emitted-%d.cpp" % i)
        with open(src, "w") as f:
            f.write(tu)
        for cxx in ("g++", "clang++"):
            rc, msg = C.sh([cxx, "-std=c++17", "-fsyntax-only", "-w", src], timeout=120)
            compiled += 1
            if rc != 0:
                rdir = C.save_replay("C13", "emitted-%d-%s" % (i, cxx.replace("+", "p")), {"emitted.cpp": tu, "compiler.txt": msg[-3000:]})
                rej = C.Rejection(["{}\n"], 1, "emitted-%d" % i, [cxx])
                out.rejections.append((rej, rdir, None))
    out.notes.append("%d compilations of emitted dispatch data (g++ and clang++ -fsyntax-only), %d texts" % (compiled, len(texts)))
    if not texts:
        raise C.ToolFailure("no emitted text captured")
    # the whole path for real: a generator program writes tables.hpp (and slots.hpp), the same source is then compiled with
    # them and never calls update: with and without static offsets, every outcome table, error record and next of every
    # definition (called from inside the definitions) must be as after update
    lat = F.gen_registries("GenLat_P4any.cfg", out, module="GenLat.tla")
    real_class_programs("C13", lat, rng, out, 4 if tier == "quick" else 40, tier, per=6, staged=(3, 4))
    if tier == "thorough":
        asan = C.build_dyn(san="address")
        F.execute_and_validate("C13", asan, scs[:2000], out, "c13-asan", TCFG)
        out.notes.append("2000 scripts re-executed under AddressSanitizer (union and dispatch tables are exact-size heap blocks)")

    def move_store(ev):
        for x in ev["ev"]:
            if x[0] == "s":
                x[1] += 1 << 20
                return True
        return False

    def grow(ev):
        ev["nv"] = ev["E"] + 1
        return True
    for s in scs[:40]:
        if F.selftest_corruption(exe, s, out, mutate_first("decoded", move_store), "one recorded decoder store moved outside the decoded v-tables", TCFG, must=False):
            break
    F.selftest_corruption(exe, scs[0], out, mutate_first("encoded", grow), "one initialiser too many in the recorded emitted data", TCFG)
    out.need_selftest = True
    c = out.action_counts
    if not c.get("decoded"):
        raise C.ToolFailure("vacuous: the decoder never ran")
    return F.report("C13", tier, seed, out, t0, LEVEL,
                    rule="a case = one random registry (lattices with v-tables not starting at slot 0, classes without entries, classes registered by "
                         "several statements, uni- and multi-methods with error cells) under one std-rtti policy: after update the real generator encodes "
                         "the dispatch data, the emitted declaration and initialisers are parsed and laid out exactly as declared, the installed tables "
                         "are forgotten and the real decoder runs on the data (hook H4 reports every fetch and store); then all outcome tables, error "
                         "records and next slots are observed again; distinct_nontrivial = distinct scripts",
                    assumptions=ASSUME_DYN + ["the emitted text is parsed and laid out by the harness (sizes and initialiser counts are checked as a compiler would); "
                                              "compiling it with g++ / clang++ is not part of this check"],
                    extra_cov={"policies": policies})


# ---------------------------------------------------------------------------
def check_C20(tier, seed):
    sys_path_gen()
    import gen
    import templates_emit as TE
    t0 = time.time()
    out = F.Outcome("C20")
    rng = random.Random(seed)
    MOD, TCFG = "TraceTemplates.tla", "TraceTemplates.cfg"
    r = C.tlc_model("Templates.tla", "Templates_small.cfg")
    out.model_states += r.generated
    out.model_distinct += r.distinct
    fam = r.printed()
    out.model_runs.append({"module": "Templates.tla", "cfg": "Templates_small.cfg", "generated": r.generated, "distinct": r.distinct, "emitted": len(fam), "ok": r.ok})
    if not r.ok:
        raise F.ModelViolation("Templates.tla", "Templates_small.cfg", r.out)
    if tier == "thorough":
        F.model_check(out, "Templates.tla", "Templates_big.cfg", timeout=3000)
    chosen = fam if tier == "thorough" else rng.sample(fam, min(len(fam), 192))
    programs, sources = {}, {}
    per = 24
    for b in range(0, len(chosen), per):
        scen = [(b + i, [list(l) for l in s["lists"]], [list(u) for u in s["undef"]]) for i, s in enumerate(chosen[b:b + per])]
        name = "tmpl%d" % (b // per)
        sources[name] = TE.program(name, scen, 3)
    # longer lists, three lists, random not_defined subsets
    scen = []
    for i in range(16 if tier == "quick" else 200):
        K = 5
        if i % 4 == 3:      # four or five lists (short ones): the product is enumerated with the first list varying slowest
            lists = [rng.sample(range(1, K + 1), rng.randrange(1, 3)) for _ in range(rng.randrange(4, 6))]
            lists[0] = rng.sample(range(1, K + 1), 2)       # (both ends vary, so that the order is observable)
            lists[-1] = rng.sample(range(1, K + 1), 2)
        else:
            lists = [rng.sample(range(1, K + 1), rng.randrange(1, 5)) for _ in range(rng.randrange(1, 4))]
        prod = [[]]
        for l in lists:
            prod = [p + [c] for p in prod for c in l]
        und = [p for p in prod if rng.random() < 0.3]
        scen.append((1000 + i, lists, und))
    for b in range(0, len(scen), 8):
        sources["tmplr%d" % (b // 8)] = TE.program("tmplr%d" % (b // 8), scen[b:b + 8], 5)
    # products on both sides of the 512-element split of aggregate<>
    # (a, b, number of not_defined combinations): what is registered must stay on the far side of the split for
    # some of them, with odd and even counts (the halves of an odd count differ by one)
    sizes = [(23, 23, 2)] if tier == "quick" else [(25, 20, 3), (32, 16, 0), (27, 19, 0), (27, 19, 1), (23, 23, 2), (30, 20, 7), (40, 40, 1)]
    for a, bb, nu in sizes:
        K = max(a, bb)
        l1, l2 = list(range(1, a + 1)), list(range(1, bb + 1))
        und = set()
        while len(und) < nu:
            und.add((rng.choice(l1), rng.choice(l2)))
        und = [list(x) for x in sorted(und)]
        nm = "big%d_%d" % (a * bb, nu)
        sources[nm] = TE.program(nm, [(9000 + a * bb, [l1, l2], und)], K)
    res = gen.build_and_run(sources)
    F.validate_program_outputs("C20", res, sources, out, "c20", TCFG, MOD)
    if tier == "thorough":
        res2 = gen.build_and_run({k + "_clang": v.replace('"script\\":\\"%s' % k, '"script\\":\\"%s_clang' % k) for k, v in sources.items()}, cxx="clang++",
                                 extra=["-ftemplate-depth=8192"])    # clang's default depth (1024) is below what a 512-element product needs
        F.validate_program_outputs("C20", res2, {k + "_clang": v for k, v in sources.items()}, out, "c20-clang", TCFG, MOD)
        out.notes.append("all programs also built with clang++")
    # negative control on a recorded log: drop one catalog entry
    n0 = sorted(res)[0]
    if res[n0][0] == 0:
        lines = [ln for ln in res[n0][1].splitlines() if ln.startswith("{")]
        bad = []
        done = False
        for ln in lines:
            ev = json.loads(ln)
            if not done and ev.get("e") == "tmpl" and ev["catalog"]:
                ev["catalog"] = ev["catalog"][1:]
                done = True
                ln = json.dumps(ev, separators=(",", ":"))
            bad.append(ln)
        tp = os.path.join(C.scratch(), "c20.corrupt.ndjson")
        with open(tp, "w") as f:
            f.write("\n".join(bad) + "\n")
        _, rj = C.validate_trace(MOD, TCFG, tp, parts=1)
        out.selftests.append({"label": "one definition removed from a recorded catalog", "applied": done, "clean_accepted": True, "corrupt_rejected": bool(rj)})
    return F.report("C20", tier, seed, out, t0, LEVEL,
                    rule="a case = one generated C++ program (compiled against the library) holding several use_definitions instances: type lists "
                         "(1-3 lists, 1-4 classes each) and a set of combinations specialised as not_defined, taken from the TLC-enumerated family "
                         "(Templates.tla) plus random larger ones, plus products of 500..600 elements around the 512-element split of aggregate<>; each "
                         "logs the order of product<>, the definitions found in the method's catalog and the result of calling every class tuple; "
                         "distinct_nontrivial = distinct programs (scenarios: see trace_action_counts.tmpl)",
                    assumptions=["the C++ compiler (g++; thorough also clang++) is the reference for template expansion: the specification supplies "
                                 "the enumeration of the program family and the acceptance condition for each program's log",
                                 "TLC 1.8.0"],
                    extra_cov={"scenarios_from_tlc": len(chosen), "programs": len(sources)})


def sys_path_gen():
    import sys
    g = os.path.join(C.VERIF, "gen")
    if g not in sys.path:
        sys.path.insert(0, g)


# ---------------------------------------------------------------------------
def check_C11(tier, seed):
    sys_path_gen()
    import gen
    import args_emit as AE
    t0 = time.time()
    out = F.Outcome("C11")
    rng = random.Random(seed)
    MOD, TCFG = "TraceArgs.tla", "TraceArgs.cfg"
    r = C.tlc_model("Args.tla", "ArgsMC.cfg")
    out.model_states += r.generated
    out.model_distinct += r.distinct
    fam = r.printed()
    out.model_runs.append({"module": "Args.tla", "cfg": "ArgsMC.cfg", "generated": r.generated, "distinct": r.distinct, "emitted": len(fam), "ok": r.ok})
    if not r.ok:
        raise F.ModelViolation("Args.tla", "ArgsMC.cfg", r.out)
    fam = sorted(fam, key=lambda s: (s["kind"], s["shape"], s["pos"], s["cat"]))
    rng.shuffle(fam)
    sources = {}
    per = 21
    for b in range(0, len(fam), per):
        sc = [(b + i, (s["kind"], s["shape"], s["pos"], s["cat"], s["ret"])) for i, s in enumerate(fam[b:b + per])]
        sources["args%d" % (b // per)] = AE.program("args%d" % (b // per), sc)
    res = gen.build_and_run(sources)
    F.validate_program_outputs("C11", res, sources, out, "c11", TCFG, MOD)
    if tier == "thorough":
        for cxx, opt in (("clang++", "-O0"), ("g++", "-O2")):
            tag = "_%s%s" % (cxx.replace("+", "p"), opt)
            src2 = {k + tag: v.replace('\\"script\\":\\"%s\\"' % k, '\\"script\\":\\"%s\\"' % (k + tag)) for k, v in sources.items()}
            res2 = gen.build_and_run(src2, cxx=cxx, opt=opt)
            F.validate_program_outputs("C11", res2, src2, out, "c11" + tag, TCFG, MOD)
        out.notes.append("all programs also built with clang++ -O0 and g++ -O2")
    # negative control on a recorded log
    n0 = sorted(res)[0]
    if res[n0][0] == 0:
        bad, done = [], False
        for ln in [x for x in res[n0][1].splitlines() if x.startswith("{")]:
            ev = json.loads(ln)
            if not done and ev.get("e") == "args":
                ev["r"]["self_ok"] = False
                done = True
                ln = json.dumps(ev, separators=(",", ":"))
            bad.append(ln)
        tp = os.path.join(C.scratch(), "c11.corrupt.ndjson")
        with open(tp, "w") as f:
            f.write("\n".join(bad) + "\n")
        _, rj = C.validate_trace(MOD, TCFG, tp, parts=1)
        out.selftests.append({"label": "address check of a recorded report set to false", "applied": done, "clean_accepted": True, "corrupt_rejected": bool(rj)})
    n = out.action_counts.get("args", 0)
    return F.report("C11", tier, seed, out, t0, LEVEL,
                    rule="a case = one generated scenario of the family Kind x Shape x Pos x Cat (810 = 9 parameter kinds x 5 inheritance shapes between "
                         "the method's and the definition's class x 3 positions x 6 categories of the neighbouring non-virtual parameter), compiled through "
                         "the macro front end: inside the definition the parameter must designate the D sub-object of the caller's object (every class "
                         "records its own address at construction), the same shared ownership, the non-virtual argument the same referent / value with "
                         "the copy budget of Args.tla, the return value unchanged; distinct_nontrivial = distinct programs (scenarios: trace_action_counts.args)",
                    assumptions=["the C++ compiler's object model is the reference for 'the right address' (self-identifying sub-objects); the specification "
                                 "supplies the exhaustive enumeration of the family and the acceptance condition",
                                 "the number of moves of a by-value parameter is recorded but not gated: every by-value hop of the call path costs one move by the rules of the language"],
                    extra_cov={"scenarios": n, "programs": len(sources), "exhaustive": True})


# ---------------------------------------------------------------------------
def mt_script(rng, sid, threads, iters, updpol=None):
    if updpol is None:
        updpol = rng.choice([3, 4, 5])     # fast hash + vector / map / checked hash + indirect
    n = rng.randrange(3, 8)
    classes, edges, _, _, _, kind = S.random_registry(rng, n, 0, 1, 0)
    anc = S.anc_closure(edges, classes)
    cov = {c: [x for x in classes if c in anc[x]] for c in classes}
    lines = []
    methods = [(1, "V", [rng.choice(classes)]), (2, "VV", [rng.choice(classes), rng.choice(classes)]),
               (3, "PV", [rng.choice(classes), rng.choice(classes)]), (4, "V", [rng.choice(classes)])]
    defs = []
    for m, sh, vp in methods:
        for d in range(rng.randrange(0, 5)):
            defs.append((m, d, [rng.choice(cov[v]) for v in vp]))
    recs = S.presentation(rng.choice(["direct", "complete"]), classes, edges, rng)
    for p in range(6):
        for c, bases in recs:
            lines.append("c %d %d %d 0 %d %s" % (p, c, c, len(bases), " ".join(map(str, bases))))
        for m, sh, vp in methods:
            lines.append("m %d %d %s %d %s" % (p, m, sh, len(vp), " ".join(map(str, vp))))
        for m, d, vp in defs:
            lines.append("d %d %d %d %d %s" % (p, m, d, len(vp), " ".join(map(str, vp))))
        lines.append("u %d" % p)
    lines.append("MT %d %d %d %d" % (threads, iters, rng.randrange(1, 1 << 20), updpol))
    return F.RawScript(sid, lines, "mt")


def run_mt(exe, sc, tag):
    """One script per process (a process is one concurrent experiment); ThreadSanitizer reports on
    stderr become 'race' events."""
    d = C.scratch()
    sp = os.path.join(d, tag + ".script")
    tp = os.path.join(d, tag + ".ndjson")
    with open(sp, "w") as f:
        f.write(sc.text())
    rc, outp = C.sh([exe, sp, tp], timeout=600, env={"TSAN_OPTIONS": "exitcode=66 halt_on_error=0 report_signal_unsafe=0"})
    races = outp.count("WARNING: ThreadSanitizer")
    lines = []
    if os.path.exists(tp):
        with open(tp) as f:
            lines = f.readlines()
    lines = [ln for ln in lines if ln.strip() != '{"e":"end"}']
    if not lines or not lines[0].startswith('{"e":"reset"'):
        lines.insert(0, '{"e":"reset","script":"%s","bindings":["mt"]}\n' % sc.sid)
    if races:
        lines.append(json.dumps({"e": "race", "reports": races, "first": outp[outp.find("WARNING: ThreadSanitizer"):][:600]}) + "\n")
    elif rc not in (0, 66):
        lines.append(json.dumps({"e": "died", "sig": rc}) + "\n")
    lines.append('{"e":"end"}\n')
    return lines, races


def check_C16(tier, seed):
    TCFG = "TraceYomm2_mt.cfg"
    t0 = time.time()
    out = F.Outcome("C16")
    rng = random.Random(seed)
    exe = C.build_simple("mt", "mt.cpp", opt="-O1", san="thread", extra_flags=["-g"])
    F.model_check(out, "Concurrency.tla", "Concurrency_other.cfg")
    F.model_check(out, "Concurrency.tla", "Concurrency_same.cfg", expect_violation=True)
    # second mechanism model: seven caller operations, three updater operations, the keying of every kind of storage a parameter
    F.model_check(out, "ConcurrencyPaths.tla", "ConcurrencyPaths_other.cfg")
    if tier != "quick":
        F.model_check(out, "ConcurrencyPaths.tla", "ConcurrencyPaths_other3.cfg")     # three callers: 2.6 million distinct states
    negs = ["same", "cache"] + ["shared_" + k for k in ("hashpar", "ctrl", "vec", "svp", "slots", "vtbl", "disp", "handler")]
    for ng in (negs if tier != "quick" else ["same", "cache", "shared_handler", "shared_vec", "shared_hashpar"]):
        F.model_check(out, "ConcurrencyPaths.tla", "ConcurrencyPaths_%s.cfg" % ng, expect_violation=True)
    nscripts = 10 if tier == "quick" else 120
    threads = 8 if tier == "quick" else 14
    iters = 20000 if tier == "quick" else 60000
    scs = [mt_script(rng, "mt%d" % i, threads, iters) for i in range(nscripts)]
    import concurrent.futures as cf
    with cf.ThreadPoolExecutor(max_workers=2 if tier == "quick" else 1) as ex:
        results = list(ex.map(lambda a: run_mt(exe, a[1], "c16-%d" % a[0]), enumerate(scs)))
    tp = os.path.join(C.scratch(), "c16.ndjson")
    with open(tp, "w") as f:
        for lines, races in results:
            f.writelines(lines)
    F.count_actions(tp, out.action_counts)
    stats, rejs = C.validate_trace("TraceYomm2.tla", TCFG, tp)
    out.trace_states += stats["generated"]
    out.trace_distinct += stats["distinct"]
    out.trace_lines += stats["lines"]
    out.executions += stats["executions"]
    out.scripts += len(scs)
    out.policy_runs += len(scs)
    by_id = {s.sid: s for s in scs}
    for rej in rejs[:F.MAX_CONFIRM]:
        sc = by_id.get(rej.script_id)
        rdir = C.save_replay("C16", rej.script_id, {"script.txt": sc.text() if sc else "", "trace.ndjson": "".join(rej.block),
                                                   "verdict.txt": "first unexplained trace line: %d\n%s\n" % (rej.line, rej.block[rej.line - 1][:1500] if rej.line <= len(rej.block) else "<end>")})
        out.rejections.append((rej, rdir, None))
    with open(tp) as f:
        head = [json.loads(x) for x in f.readlines()[:30]]
    out.samples.append({"script": scs[0].text().splitlines()[:12], "trace": head[-6:]})
    # negative control: the updater works on a policy the callers use -> ThreadSanitizer must report, TLC must reject
    neg = mt_script(random.Random(seed + 1), "neg", 6, 20000, updpol=0)
    lines, races = run_mt(exe, neg, "c16-neg")
    ntp = os.path.join(C.scratch(), "c16neg.ndjson")
    with open(ntp, "w") as f:
        f.writelines(lines)
    _, nrej = C.validate_trace("TraceYomm2.tla", TCFG, ntp, parts=1)
    out.selftests.append({"label": "update run concurrently on a policy the callers use (outside the property): race reported and trace rejected",
                          "applied": True, "clean_accepted": True, "corrupt_rejected": bool(nrej) and races > 0, "tsan_reports": races})
    # negative control of the footprint binding: the first experiment's trace with one range of policy 3 moved onto one of policy 0
    fl = list(results[0][0])
    fi = next((i for i, l in enumerate(fl) if l.startswith('{"e":"footprint"')), None)
    if fi is None:
        if not out.rejections:
            raise C.ToolFailure("vacuous: the mt harness logged no footprint event")
    else:
        ev = json.loads(fl[fi])
        a = next(c for c in ev["cells"] if c["p"] == 0)
        b = next(c for c in ev["cells"] if c["p"] == 3)
        b["lo"], b["hi"] = a["lo"], a["hi"]
        fl[fi] = json.dumps(ev, separators=(",", ":")) + "\n"
        ftp = os.path.join(C.scratch(), "c16fp.ndjson")
        with open(ftp, "w") as f:
            f.writelines(fl)
        _, frej = C.validate_trace("TraceYomm2.tla", TCFG, ftp, parts=1)
        ok = bool(frej)
        out.selftests.append({"label": "footprint event with a storage range of the updated policy placed on a range of a callers' policy: rejected",
                              "applied": True, "clean_accepted": not out.rejections, "corrupt_rejected": ok})
        if not ok:
            raise C.ToolFailure("negative control: overlapping footprint not rejected")
    st = [json.loads(l) for ls, _ in results for l in ls if l.startswith('{"e":"statics"')]
    ncalls = sum(x["calls"] for x in st)
    nupd = sum(x["updates"] for x in st)
    if nupd == 0 and not out.rejections:
        raise C.ToolFailure("vacuous: the concurrent updater never ran")
    return F.report("C16", tier, seed, out, t0, LEVEL,
                    rule="a case = one concurrent experiment: %d threads issue %d seeded random dispatches each (resolve and operator(), references and "
                         "virtual_ptr created / copied / used per call) on three policies (fast hash; checked hash + indirect; vptr_map) holding the same "
                         "random registry, while one thread repeatedly changes and updates a fourth policy; binary built with -fsanitize=thread; every "
                         "distinct per-thread observation is validated by TLC against the sequential oracle; statics compared before / after; "
                         "distinct_nontrivial = distinct experiments" % (threads, iters),
                    assumptions=["data-race freedom in the C++ memory model is established by ThreadSanitizer acting as the recorder (its reports become events the "
                                 "specification has no action for); TLC decides the interleaving model (Concurrency.tla) and every recorded outcome",
                                 "registration records are hand built as in the dyn harness"],
                    extra_cov={"concurrent_calls": ncalls, "concurrent_updates_of_other_policy": nupd, "threads": threads})


CHECKS = {"C16": check_C16, "C11": check_C11, "C20": check_C20, "C13": check_C13, "C12": check_C12, "C19": check_C19, "C05": check_C05, "C18": check_C18, "C09": check_C09, "C15": check_C15, "C07": check_C07, "C10": check_C10, "C14": check_C14, "C04": check_C04, "C08": check_C08, "C01": check_C01, "C02": check_C02, "C03": check_C03, "C06": check_C06, "C17": check_C17}
