"""Per-property checks.  Each returns an exit code: 0 held, 1 violation(s) not listed as known."""
import json
import os
import random
import time

import common as C
import family as F
import scripts as S

LEVEL = "model_checking"

ASSUME_DYN = [
    "dyn harness: registration records (class_info, method_info, definition_info) are built by hand at run time "
    "instead of by the template front end; update, resolve, operator(), virtual_ptr, policies and handlers are the library's own code",
    "TLC 1.8.0 evaluates the TLA+ operators correctly; the oracle operators of spec/Dispatch.tla are a faithful transcription of the property statement",
    "objects of abstract classes are passed too (the dyn harness can create them); the statement quantifies over dynamic classes",
]


def edges_of(reg):
    return sorted((e[0], e[1]) for e in reg["edges"])


def c01_scripts_from_universe(regs, n, arity, rng, policies, tagprefix, observe=("T", "CT")):
    scripts = []
    classes = list(range(1, n + 1))
    for i, reg in enumerate(regs):
        shape = S.shape_for(arity, i)
        methods = [(1, shape, list(reg["mvp"]))]
        defs = [(1, d, list(vp)) for d, vp in enumerate(reg["defs"])]
        # a noise uni-method on a random class perturbs slot allocation without changing the answer
        if rng.random() < 0.5:
            methods.append((2, "V" if shape != "V" else "NV", [rng.choice(classes)]))
        abstract = {c for c in classes if rng.random() < 0.15}
        sc = S.registry_script("%s-%d" % (tagprefix, i), [[p] for p in policies], classes, edges_of(reg),
                               methods, defs, abstract=abstract, style="complete", rng=rng, observe=observe)
        scripts.append(sc)
    return scripts


def check_C01(tier, seed):
    TCFG = "TraceYomm2_dispatch.cfg"
    t0 = time.time()
    out = F.Outcome("C01")
    rng = random.Random(seed)
    exe = C.build_dyn()
    policies = S.EAGER_POLICIES
    universes = [("GenReg_N4A1D3.cfg", 4, 1), ("GenReg_N4A2D2.cfg", 4, 2), ("GenReg_N3A3D2.cfg", 3, 3)]
    if tier == "thorough":
        universes += [("GenReg_N5A1D3.cfg", 5, 1), ("GenReg_N4A2D3.cfg", 4, 2), ("GenReg_N5A2D2.cfg", 5, 2),
                      ("GenReg_N3A3D3.cfg", 3, 3), ("GenReg_N3A4D2.cfg", 3, 4)]
    for cfg, n, ar in universes:
        regs = F.gen_registries(cfg, out)
        scs = c01_scripts_from_universe(regs, n, ar, rng, policies, cfg.replace(".cfg", ""))
        F.execute_and_validate("C01", exe, scs, out, "c01-" + cfg, TCFG)
    # V binding: random larger registries
    nrand = 300 if tier == "quick" else 6000
    scs = []
    for i in range(nrand):
        n = rng.randrange(3, 13)
        classes, edges, methods, defs, abstract, kind = S.random_registry(rng, n, rng.randrange(1, 4), 3 if n > 8 else 4, 6)
        if not methods:
            continue
        scs.append(S.registry_script("rnd-%d-%s" % (i, kind), [[p] for p in policies], classes, edges, methods, defs,
                                     abstract=abstract, style="complete", rng=rng, observe=("T", "CT")))
    F.execute_and_validate("C01", exe, scs, out, "c01-rnd", TCFG)

    # negative control: flip one recorded outcome; TLC must reject
    def flip(lines):
        for i, ln in enumerate(lines):
            if ln.startswith('{"e":"table"'):
                ev = json.loads(ln)
                if ev["rows"]:
                    ev["rows"][0][1] = 0 if ev["rows"][0][1] != 0 else -1
                    lines[i] = json.dumps(ev, separators=(",", ":")) + "\n"
                    return lines
        return lines
    if scs:
        F.selftest_corruption(exe, scs[0], out, flip, "one outcome of a resolve table altered", TCFG)
    return F.report("C01", tier, seed, out, t0, LEVEL,
                    rule="a case = one registry (inheritance graph, methods with signature shapes, definitions) executed under one "
                         "policy configuration, all legal argument tuples resolved and called; distinct_nontrivial = distinct registries",
                    assumptions=ASSUME_DYN, exhaustive=False,
                    extra_cov={"policies": policies, "universes": [u[0] for u in universes], "random_registries": len(scs)})


CHECKS = {"C01": check_C01}
