"""Offline setup: tool sanity, SANY on every module, harness build for the current tree."""
import glob
import os
import sys

sys.path.insert(0, os.path.dirname(os.path.abspath(__file__)))
import common as C

rc, out = C.sh("java -version", timeout=60)
if rc != 0:
    print("java missing"); sys.exit(2)
bad = 0
for f in sorted(glob.glob(os.path.join(C.SPEC, "*.tla"))):
    # modules that carry TLAPS proofs import the proof system's TLAPS module
    rc, out = C.sh(["java", "-Djava.io.tmpdir=" + C.scratch(), "-DTLA-Library=/opt/veriftools/tlapm/lib/tlapm/stdlib", "-cp", C.TLC_JAR, "tla2sany.SANY",
                    os.path.basename(f)], cwd=C.SPEC, timeout=300)
    if rc != 0 or "Semantic errors" in out or "*** Errors" in out or "Fatal errors" in out:
        print("SANY failed on", f); print(out[-1500:]); bad += 1
if bad:
    sys.exit(2)
exe = C.build_dyn()
print("setup ok:", exe)
