"""Regenerates /verif/MANIFEST.json from the table below (single source of truth)."""
import json
import subprocess

PROPS = [json.loads(l) for l in open("/verif/properties.jsonl")]

CHECKS = {
    "C01": dict(ref="6/C01", tech="TLA+ spec (Dispatch/Yomm2) + TLC: oracle theorems on bounded universes; TLC-generated registries and seeded random registries replayed on the real library under 19 policy configurations, traces validated by TLC (TraceYomm2); TLAPS proof of the oracle lemmas (DispatchProofs.tla, 13 obligations)",
                text="Every registry of the bounded universes (all reduced inheritance graphs over <=4 classes x method tuples x <=3 definitions, arity 1..3; thorough: <=5 classes, arity 4) is executed on the real library under every eager policy configuration through resolve() and operator(), with every signature shape of the pool; TLC decides every recorded outcome against Outcome(). Exhaustive within the constants, sampled beyond (random lattices up to 12 classes; the 5-class lattice on which MoreSpecific is not transitive with every definition set); a sample is re-run with the library's trace output switched on (YOMM2_TRACE) under the debug-derived policies.",
                note="trusts TLC and the hand-built registration records of the dyn harness; the template front end (macros, thunks) is covered by the gen checks"),
    "C02": dict(ref="6/C02", tech="TLC trace validation of error records and of the abort protocol against Yomm2.tla (Call action: err/thrown/aborted, TDied, TEnd)",
                text="Same universes as C01; every erroring tuple's error record (status, arity, types of the virtual arguments in order) is compared with ErrorRecord under the three error-handling facets; after thrown errors the tables are re-validated; sampled calls under a returning handler must end in SIGABRT with no further event. Programs with real class hierarchies (virtual inheritance, abstract classes, non-virtual / pointer / virtual_ptr parameters) registered through the macros report their error records through set_error_handler and are validated the same way.",
                note="handler-returns runs are sampled (registry, tuple) pairs, not exhaustive"),
    "C03": dict(ref="6/C03", tech="TLC trace validation of next slots against NextTarget (Dispatch.tla), including add/remove/update histories",
                text="For every definition of every registry of the bounded universes, the next slot is observed after update by pointer identity and by calling through it; histories that add and remove definitions between updates re-observe every slot; programs with real class hierarchies call `next` from inside definitions made with define_method and are validated against the same oracle.",
                note="as C01"),
    "C06": dict(ref="6/C06", tech="TLC trace validation of permuted registrations against the order-free oracle; TLC exhibits non-transitivity of MoreSpecific on the 5-class lattice and every definition set/order there is replayed",
                text="Registration orders (class records, methods, definitions) are shuffled; every order's outcome tables and next targets must equal the order-free oracle, hence agree with each other. Exhaustive over all definition orders on the D2 lattice (2,626 definition sets x up to 6 orders), sampled orders elsewhere.",
                note="orders are sampled for class records and for registries outside the D2 lattice"),
    "C04": dict(ref="6/C04", tech="TLC on the slot-allocation transcription (CompilerSlots.tla: CellsDisjoint, with the pre-repair variant as negative control) + TLC-generated lattices replayed on the real library; recorded layouts and read addresses (hook H2) validated by TLC (LayoutOK / ReadsRowOK)",
                text="Every reduced lattice over <=5 classes (thorough: 6) x placement of up to 3-4 one-parameter methods (+ random multi-methods), registered with complete and with direct-only base lists: the installed layout must give every acceptable (class, method, parameter) its own cell inside the dispatch data, outside every dispatch table; every address resolve() reads must be that cell or inside the method's own table. Thorough re-executes under AddressSanitizer.",
                note="read addresses are reported by hook H2 (add-only call sites in core.hpp); the policy's id->vptr lookup tables are covered by C05/C15"),
    "C05": dict(ref="6/C05", tech="TLC on Hash.tla (W-bit model of the multiplier search: every multiplier sequence, four table sizes, budget exhaustion, max index persisting across updates; invariant ContractHolds) + seeded id-family histories executed on the real hashed policies, recorded hashes validated by TLC against the contract (TraceHash.tla)",
                text="Histories of 1-6 updates with growing and shrinking id sets drawn from six id families (0..120 ids, thorough 400) under fast / checked x direct / indirect policies and search budgets 0,1,2,3,5 (hook H1): after each update every registered id must hash to its own in-range index holding its class's pointer, or the update must report a hash search error; under checked policies ~15,000 unregistered ids per quick run (neighbours, bit flips, removed ids, random) must each be reported as unknown with that id.",
                note="real 64-bit arithmetic is not modelled in TLC; it is covered by contract validation of recorded executions"),
    "C07": dict(ref="6/C07", tech="TLC on Yomm2MC (histories over pools; FreshEquivalence, TypeOK) generating every history up to the bound and random simulations; histories replayed on the real library, every post-update observation validated by TLC against the oracle on the current catalogs",
                text="Every history of <=5 operations (thorough: 6) over a pool of class records, methods and definitions, TLC-simulated histories of 15 operations and guided random histories of up to 60 operations on random registries are replayed under eager custom, std, projected and deferred type ids, with and without hash; after every update (and after a second, change-free update) all outcome tables and next slots must equal the oracle evaluated on the catalogs as they are then.",
                note="registration objects' destructors are replaced by direct catalog removal; the dlopen/dlclose scenario is built with two plugins (classes, methods, definitions and registrations coming and going with dlclose)"),
    "C09": dict(ref="6/C09", tech="TLC on VptrMC.tla (handle validity across updates, direct vs indirect) + random handle scripts replayed on the real virtual_ptr / virtual_shared_ptr code under 13 policies, every call through handles validated by TLC against the oracle for the pointees",
                text="Handles are built by every construction route (exact static type, base reference, final, shared_ptr lvalue / rvalue / most-derived, make_virtual_shared), copied, moved, converted, cast, read back through get / * / ->, and used as arguments of methods taking virtual_ptr, const virtual_ptr& and virtual_shared_ptr, before and after updates that move slots; indirect handles are used after the update, direct ones are not (the specification's validity rule).",
                note="static types of handles are nodes of a 4-class C++ chain with run-time static ids; std-RTTI and projected policies are not bound for handle scripts"),
    "C15": dict(ref="6/C15", tech="TLC trace validation against UpdateUnknown / CallUnknown / MakeVptrUnknown / MakeVptrNotFinal of Yomm2.tla under the checked policies, with hook-H2 read events",
                text="Registries with one class left out, at every place it can occur: listed base, method parameter, definition parameter (update must report that class); dynamic class of an argument at each virtual position by reference, pointer, shared_ptr and virtual_ptr; pointee of each virtual_ptr construction route; final with another dynamic type (method table error). The report must carry that class, no definition may run, and no v-table may be read for that argument before the report.",
                note="'no table read first' is decided on the v-table reads of hook H2; reads for earlier registered arguments of the same call are legal"),
    "C10": dict(ref="6/C10", tech="TLC trace validation of the same scripts under each RTTI flavour (std, custom, projected many-to-one, deferred) against the one oracle",
                text="The C01 universes (sampled in quick), the Yomm2MC histories and random registries are executed under 13 policies covering the four RTTI facet shapes, with and without hash, with three consecutive updates; projected policies register and use three ids per class. Every trace must satisfy the same specification.",
                note="std ids are type_info addresses of a pool of 24 real classes"),
    "C14": dict(ref="6/C14", tech="TLC: IsolationProp action property on Yomm2MC with two policies; interleaved multi-policy histories replayed on policy tuples obtained by rebind/replace/remove, every policy re-observed after every step and validated by TLC",
                text="Every interleaved history of <=4 operations over two policies and guided random histories over 2-3 policies sharing class ids: after every single operation all policies' outcome tables and next slots are re-observed and must still match their own catalogs; handler isolation is exercised with a returning handler on one policy only.",
                note="hash parameters and vptr validity are observed through dispatch results, not compared directly"),
    "C08": dict(ref="6/C08", tech="TLC: PresentationInvariant over every legal presentation (GenLat.tla) and CellsDisjoint (CompilerSlots.tla); every presentation of every graph <=4 classes (thorough: 5) replayed on the real library, tables/next/layout validated by TLC against the closure of the listed relation",
                text="All 1,088 (graph, listed-bases) presentations over <=4 classes (thorough: 32,768 over 5), each also split over several records, duplicated and reordered, with a probe method on every class and a random multi-method: outcome tables over all acceptable tuples, next targets and slot layout must be those of the closure of the listed relation. Real class hierarchies registered by several register_classes statements are run as compiled programs and validated the same way.",
                note="record splitting / duplication / ordering is randomized per presentation, not exhaustive"),
    "C18": dict(ref="6/C18", tech="TLC on StaticList.tla (pointer-level transcription of push_back / remove / clear; refinement to a sequence; complete state space over 6 nodes under a VIEW hiding the history) + every operation sequence up to the bound replayed on the real static_list and on the library's registration objects, validated by TLC (TraceStaticList.tla)",
                text="The refinement invariants hold on the complete reachable state space for 6 nodes (any history length). Every sequence of <=6 operations over 3 nodes (thorough: <=7 over 4, 78,125 sequences) and random sequences of 50..3000 operations over 8 nodes are executed on an instrumented node type (links compared) and on class_declaration / method / definition_info objects with constructor- and destructor-driven registration; iteration order, size(), empty() after every operation must equal the specification.",
                note="nodes live in zero-initialised storage, like the static objects the library is used with"),
    "C19": dict(ref="6/C19", tech="TLC on FwdDecl.tla (character-level transcription of write_forward_declarations checked against a stack acceptor on every name set of the universe; broken-writer negative control) + TLC-emitted and random name sets and grammar-generated type descriptions passed to the real generator, output tokenised and validated by TLC (TraceFwd.tla)",
                text="Every set of <=3 qualified names over 39 names built from identifiers a, ab, b at <=3 namespace levels (9,920 sets; thorough also <=4 names and 5 identifiers on the model), random sets of up to 40 names of depth <=6, and type descriptions from a grammar of class names, fundamental types, pointers, references, templates, function types, std:: and yorel:: entities: the written text must be balanced and declare exactly the requested / generated class names, each once, in its namespace.",
                note="cv-qualifiers and '(anonymous namespace)' are outside the stated grammar and not generated; compiling the output is not part of the quick check"),
    "C11": dict(ref="6/C11", tech="TLC enumerates the program family of Args.tla (810 scenarios: parameter kind x inheritance shape x position x non-virtual category) and validates every generated program's report against Accept (TraceArgs.tla); programs compiled through the macro front end",
                text="All 810 scenarios (parameter kinds incl. const virtual_ptr& and const virtual_shared_ptr&) are generated, compiled with g++ (thorough: also clang++ and -O2) and run: inside the definition the virtual parameter must designate the D sub-object of the caller's object (self-identifying sub-objects; single, second-base, virtual-base and two-level inheritance), keep shared ownership, and the neighbouring non-virtual argument must be the same referent / value with 0 copies for references and rvalues and exactly the call-site copy for lvalues passed by value; move-only by-value parameters must compile; the return value must come back unchanged.",
                note="the compiler's object model is the reference for the right address; the specification contributes the exhaustive enumeration and the acceptance condition; by-value move counts are recorded, not gated"),
    "C12": dict(ref="6/C12", tech="TLC on Offsets.tla (layout of slots_strides vs. the emitter's and the consistency check's indexing, arity 1..6, interleaved-reading negative control) + real generator output parsed and validated by TLC against the installed layout; methods compiled with mutable static_offsets<> dispatch through the static path and are validated like C01",
                text="For random registries with methods of arity 1..4 (shapes with non-virtual and virtual_ptr parameters) under 9 policies: the numbers written by write_static_offsets must equal the installed slots and strides position by position; loaded into static_offsets<> they must give the oracle's outcome tables; under checked policies each single perturbed number must be reported (static slot / stride error) on every call; repeated after a second update.",
                note="the generated header is emulated by specialisations with mutable arrays filled with the parsed numbers; compiling the emitted text is not part of this check"),
    "C13": dict(ref="6/C13", tech="TLC on Decode.tla (two-cursor model of the in-place decoder over the emitted layout; pre-repair variant as negative control) + real encode_dispatch_data output parsed, laid out exactly as declared and decoded by the real decoder with hook H4; fetch/store offsets and all post-decode outcome tables validated by TLC",
                text="Random registries (v-tables not starting at slot 0, classes without entries, classes registered by several statements, uni- and multi-methods with error cells) under the three std-rtti policies: the emitted declaration must have non-negative sizes and no excess initialisers; every decoder fetch must lie in the encoded v-tables, every store in the decoded arrays, no store may overwrite a word fetched later; after decoding in a process where update never ran, every outcome table, error record and next slot must equal the oracle. Thorough repeats under AddressSanitizer with exact-size heap blocks.",
                note="std-rtti policies only (the encoder demangles type_info names); the emitted text is parsed by the harness; a sample of emitted texts is also compiled with g++ and clang++ (-fsyntax-only)"),
    "C16": dict(ref="6/C16", tech="TLC on Concurrency.tla (callers reading the dispatch path cell by cell while an updater writes another policy's cells: NoRace, SequentialAnswer; same-policy updater as negative control) + multi-threaded executions under ThreadSanitizer whose per-thread observations are validated by TLC against the sequential specification",
                text="8 threads (thorough 14) x 20,000 (60,000) seeded dispatches through resolve / operator() / virtual_ptr create-copy-use on three policies while a fourth policy is updated ~1,000 times concurrently; every distinct observation must equal the sequential oracle, the policies' statics must be unchanged after the concurrent phase, and ThreadSanitizer must report nothing; a negative control with the updater on a used policy must be reported and rejected.",
                note="data-race freedom itself is established by ThreadSanitizer as recorder, not by TLC"),
    "C20": dict(ref="6/C20", tech="TLC enumerates the family of Templates.tla (type lists x not_defined subsets; algebra of product / registered / aggregate split checked on each) and validates the logs of generated programs (product order, method catalog, dispatch of every tuple) with TraceTemplates.tla",
                text="192 TLC-emitted scenarios (thorough: all 588) plus random ones with 1-3 lists of up to 4 of 5 classes, each compiled into real programs using use_definitions / product / not_defined, plus products of 513 elements (thorough: 500, 512, 513, 600; also clang++): product<> must enumerate the Cartesian product in order, the method's catalog must hold exactly the combinations not marked not_defined, each once, and every class tuple must dispatch accordingly.",
                note="the compiler is the reference for template expansion; the specification contributes the family and the acceptance condition"),
    "C17": dict(ref="6/C17", tech="TLC trace validation of update reports against HasGap/HasAmbiguity over all and over concrete-only tuples (ReportOK in Yomm2.tla)",
                text="Every registry of the bounded universes x assignments of abstract flags (all 2^N for N<=3; thorough: all) is updated and the returned report compared with an enumeration of all class tuples by the oracle; cells is compared with the number of multi-method cells the compiler object holds. Programs with real abstract classes (pure virtual destructors, is_abstract detected by the class registration templates) report through the macro front end and are validated the same way.",
                note="iff-content of the report only (counts are not compared, the statement does not define them)"),
}

HOOK_COMMITS = ["c31ffde", "1e0b5b6", "608f4ad"]


def main():
    checks = []
    for pid, c in CHECKS.items():
        checks.append({
            "property_id": pid,
            "quick_cmd": "/verif/bin/check %s quick" % pid,
            "thorough_cmd": "/verif/bin/check %s thorough" % pid,
            "evidence_file": "/verif/evidence/%s.json" % pid,
            "replay_cmd_template": "/verif/bin/check %s quick --replay {path}" % pid,
            "engine": "tlc+dyn",
            "level_claimed": {"category": "model_checking", "text": c["text"], "design_ref": "DESIGN.md section " + c["ref"]},
            "level_note": c["note"],
            "technique": c["tech"],
        })
    na = [{"property_id": p["id"], "reason": "check not built yet (work in progress; DESIGN.md section 10 build order)"}
          for p in PROPS if p["id"] not in CHECKS]
    m = {
        "version": 1,
        "setup_cmd": "/verif/bin/setup",
        "hooks": {"guard": "YOMM2_VERIF",
                  "enable": "harness builds compile against /repo/include with -DYOMM2_VERIF and force-include /verif/harness/verif_hooks.hpp (lib/common.py BASE_FLAGS)",
                  "baseline_off_cmd": "/verif/bin/baseline_off",
                  "source_commits": HOOK_COMMITS, "add_only": True},
        "engines": [
            {"name": "tlc+dyn", "path": "/verif/bin/check", "serves_properties": sorted(CHECKS),
             "kind_free_text": "TLA+ specifications under /verif/spec model-checked with TLC; TLC-generated and seeded random scripts executed on the real "
                               "library by the dyn harness (/verif/harness); recorded ndjson traces validated by TLC against the same specifications"},
        ],
        "checks": checks,
        "not_applicable": na,
        "notes": "Single entry point /verif/bin/check <ID> <quick|thorough>. Exit 2 = tool failure (never a verdict). Known findings: /verif/known_findings.txt.",
    }
    json.dump(m, open("/verif/MANIFEST.json", "w"), indent=1)
    print("MANIFEST.json: %d checks, %d not_applicable" % (len(checks), len(na)))


if __name__ == "__main__":
    main()
