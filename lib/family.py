"""The dispatch family of checks (C01, C02, C03, C06, C07, C08, C10, C14, C17 ...):
TLC generates / random drivers generate scripts, the dyn harness executes them on the real
library, TLC validates the recorded traces against Yomm2.tla."""
import json
import os
import random
import time

import common as C
import scripts as S


class Outcome:
    def __init__(self, pid=None):
        if pid:
            import shutil
            shutil.rmtree(os.path.join(C.REPLAY, pid), ignore_errors=True)
        self.model_states = 0
        self.model_distinct = 0
        self.model_runs = []          # descriptions
        self.trace_states = 0
        self.trace_distinct = 0
        self.trace_lines = 0
        self.executions = 0           # (script x merged binding group) validated
        self.scripts = 0
        self.policy_runs = 0
        self.rejections = []          # (Rejection, replay_dir, known or None)
        self.samples = []
        self.notes = []
        self.action_counts = {}
        self.selftests = []
        self.more_rejections = 0
        self.need_selftest = False


def gen_registries(cfg, out, module="GenReg.tla"):
    """Run a GenReg configuration: checks the oracle theorems on the whole universe and returns
    the registries TLC printed."""
    r = C.tlc_model(module, cfg)
    out.model_states += r.generated
    out.model_distinct += r.distinct
    regs = r.printed()
    out.model_runs.append({"module": module, "cfg": cfg, "generated": r.generated, "distinct": r.distinct,
                           "emitted": len(regs), "ok": r.ok, "wall_s": round(r.wall, 1)})
    if not r.ok:
        raise ModelViolation(module, cfg, r.out)
    return regs


def model_check(out, module, cfg, expect_violation=False, timeout=3000):
    """Model-check a design-level configuration (mechanism layer => declarative layer).
    expect_violation: a negative control -- the configuration models a known-bad variant of the
    algorithm and TLC must find the counterexample (shows the invariant is not vacuous)."""
    r = C.tlc_model(module, cfg, timeout=timeout)
    out.model_states += r.generated
    out.model_distinct += r.distinct
    out.model_runs.append({"module": module, "cfg": cfg, "generated": r.generated, "distinct": r.distinct,
                           "ok": r.ok, "expected_violation": expect_violation, "wall_s": round(r.wall, 1)})
    if expect_violation:
        if r.ok or not r.violation:
            raise C.ToolFailure("negative control %s/%s: TLC did not find the expected counterexample" % (module, cfg))
        return r
    if not r.ok:
        raise ModelViolation(module, cfg, r.out)
    return r


def validate_program_outputs(pid, results, sources, out, tag, trace_cfg, trace_module):
    """gen harness: results name -> (rc, stdout) of generated programs (rc None: did not compile).
    Their logs are concatenated and validated; a program that does not compile or does not end normally
    contributes an event the specification has no action for."""
    d = C.scratch()
    tp = os.path.join(d, tag + ".ndjson")
    with open(tp, "w") as f:
        for name in sorted(results):
            rc, text = results[name]
            if rc is None:
                f.write(json.dumps({"e": "reset", "script": name, "bindings": ["gen"]}) .replace(" ", "") + "\n")
                f.write(json.dumps({"e": "compile_failed", "msg": text[-600:]}) + "\n")
                continue
            lines = []
            for ln in text.splitlines():
                if ln.startswith("{"):
                    try:
                        json.loads(ln)
                    except ValueError:     # a program that dies leaves a cut line behind (block-buffered stdout)
                        ln = json.dumps({"e": "garbled", "text": ln[:200]})
                    lines.append(ln)
            if not lines or not lines[0].startswith('{"e":"reset"'):
                f.write('{"e":"reset","script":"%s","bindings":["gen"]}\n' % name)
            f.write("\n".join(lines) + "\n")
            if rc != 0:
                f.write(json.dumps({"e": "died", "rc": rc}) + "\n")
    count_actions(tp, out.action_counts)
    stats, rejs = C.validate_trace(trace_module, trace_cfg, tp)
    out.trace_states += stats["generated"]
    out.trace_distinct += stats["distinct"]
    out.trace_lines += stats["lines"]
    out.executions += stats["executions"]
    out.scripts += len(results)
    out.policy_runs += len(results)
    if not out.samples and results:
        n0 = sorted(results)[0]
        out.samples.append({"program": n0, "source_head": sources[n0].splitlines()[:40], "log_head": results[n0][1].splitlines()[:4]})
    for rej in rejs[:MAX_CONFIRM]:
        name = rej.script_id
        rdir = C.save_replay(pid, name, {"program.cpp": sources.get(name, ""), "trace.ndjson": "".join(rej.block),
                                         "verdict.txt": "first unexplained trace line: %d\n%s\n" % (rej.line, rej.block[rej.line - 1][:2000] if rej.line <= len(rej.block) else "<end>")})
        out.rejections.append((rej, rdir, None))
    out.more_rejections += max(0, len(rejs) - MAX_CONFIRM)
    return stats


def tlaps_check(out, module, timeout=600):
    """Unbounded extra: check a module's theorems with the TLA+ proof system (tlapm)."""
    import re
    import shutil
    d = os.path.join(C.scratch(), "tlaps")
    os.makedirs(d, exist_ok=True)
    shutil.copy(os.path.join(C.SPEC, module), d)
    rc, o = C.sh(["tlapm", "--cleanfp", module], cwd=d, timeout=timeout)
    m = re.search(r"All (\d+) obligations? proved", o)
    out.model_runs.append({"module": module, "tool": "tlapm", "obligations_proved": int(m.group(1)) if m else 0, "ok": bool(m)})
    if not m:
        raise C.ToolFailure("tlapm did not prove %s:\n%s" % (module, o[-1500:]))
    return int(m.group(1))


class RawScript:
    """A script for one of the small harnesses (sl, hash, fwd, ...): opaque text whose first line is
    'S <id> ...' and last line 'E'."""
    def __init__(self, sid, body_lines, header_extra=""):
        self.sid = sid
        self.bindings = [[header_extra or "-"]]
        self.header_extra = header_extra
        self.lines = body_lines

    def text(self):
        return "S %s %s\n" % (self.sid, self.header_extra) + "\n".join(self.lines) + "\nE\n"

    def rerun_text(self, bindings):
        return self.text()


class ModelViolation(Exception):
    def __init__(self, module, cfg, text):
        Exception.__init__(self, "%s/%s" % (module, cfg))
        self.module, self.cfg, self.text = module, cfg, text


RUN_ENV = {}   # extra environment for the harness processes (e.g. YOMM2_TRACE=1)


def _run_one(args):
    exe, sp, tp, timeout = args
    rc, outp = C.sh([exe, sp, tp], timeout=timeout, env=dict(RUN_ENV) if RUN_ENV else None)
    return rc, outp[-4000:]


def run_dyn(exe, script_text, tag, timeout=14400, parallel=True):    # (children have their own 20 s alarm: the driver cannot hang)
    """Execute scripts on the real library.  Scripts are independent (each runs in its own forked
    child of the driver), so the file is split over several driver processes."""
    import concurrent.futures as cf
    d = C.scratch()
    sp = os.path.join(d, tag + ".script")
    tp = os.path.join(d, tag + ".ndjson")
    with open(sp, "w") as f:
        f.write(script_text)
    blocks = script_text.split("\nE\n")
    blocks = [b + "\nE\n" for b in blocks if b.strip()]
    nproc = min(C.CORES, max(1, len(blocks) // 8)) if parallel else 1
    if nproc <= 1:
        rc, outp = _run_one((exe, sp, tp, timeout))
        if rc != 0:
            raise C.ToolFailure("dyn harness failed (rc=%d): %s" % (rc, outp[-2000:]))
        return sp, tp
    jobs = []
    per = (len(blocks) + nproc - 1) // nproc
    for i in range(nproc):
        part = blocks[i * per:(i + 1) * per]
        if not part:
            continue
        psp = "%s.%d" % (sp, i)
        with open(psp, "w") as f:
            f.write("".join(part))
        jobs.append((exe, psp, "%s.%d" % (tp, i), timeout))
    with cf.ThreadPoolExecutor(max_workers=len(jobs)) as ex:
        res = list(ex.map(_run_one, jobs))
    for rc, outp in res:
        if rc != 0:
            raise C.ToolFailure("dyn harness failed (rc=%d): %s" % (rc, outp[-2000:]))
    with open(tp, "w") as out:
        for j in jobs:
            with open(j[2]) as f:
                out.write(f.read())
            os.unlink(j[2])
            os.unlink(j[1])
    return sp, tp


def count_actions(trace_path, counts):
    with open(trace_path) as f:
        for ln in f:
            i = ln.find('"e":"')
            if i >= 0:
                j = ln.find('"', i + 5)
                k = ln[i + 5:j]
                counts[k] = counts.get(k, 0) + 1


MAX_CONFIRM = 6


def execute_and_validate(pid, exe, script_objs, out, tag, trace_cfg, trace_module="TraceYomm2.tla",
                         findings=None, classify=None):
    """script_objs: list of scripts.Script.  Executes, validates, confirms and records rejections."""
    by_id = {s.sid: s for s in script_objs}
    text = "".join(s.text() for s in script_objs)
    sp, tp = run_dyn(exe, text, tag)
    count_actions(tp, out.action_counts)
    stats, rejs = C.validate_trace(trace_module, trace_cfg, tp)
    out.trace_states += stats["generated"]
    out.trace_distinct += stats["distinct"]
    out.trace_lines += stats["lines"]
    out.executions += stats["executions"]
    out.scripts += len(script_objs)
    out.policy_runs += sum(len(s.bindings) for s in script_objs)
    if not out.samples and script_objs:
        with open(tp) as f:
            lines = f.readlines()
        blk = []
        for ln in lines:
            if ln.startswith('{"e":"reset"') and blk:
                break
            blk.append(json.loads(ln))
        out.samples.append({"script": script_objs[0].text().splitlines(), "trace": blk[:12]})
    for rej in rejs:
        sc = by_id.get(rej.script_id)
        confirmed = True
        if len([1 for x in out.rejections if not x[2]]) >= MAX_CONFIRM:
            out.more_rejections += 1
            continue
        if sc is not None:
            # re-run before reporting: same script, only the bindings that were rejected
            if hasattr(sc, "rerun_text"):
                rtext = sc.rerun_text(rej.bindings)
            else:
                single = S.Script(sc.sid, [b.split("+") for b in rej.bindings] or sc.bindings)
                single.lines = sc.lines
                rtext = single.text()
            sp2, tp2 = run_dyn(exe, rtext, tag + ".rerun")
            _, rejs2 = C.validate_trace(trace_module, trace_cfg, tp2, parts=1)
            confirmed = bool(rejs2)
            if confirmed:
                rej = rejs2[0]
        if not confirmed:
            out.notes.append("rejection of %s not reproduced on re-run; ignored" % rej.script_id)
            continue
        known = None
        if findings and classify:
            known = classify(rej, sc, findings)
        name = "%s-%s" % (rej.script_id, "_".join(rej.bindings)[:60])
        rdir = C.save_replay(pid, name, {
            "script.txt": sc.text() if sc else "",
            "trace.ndjson": "".join(rej.block),
            "verdict.txt": "first unexplained trace line: %d\n%s\n" % (rej.line, rej.block[rej.line - 1] if rej.line <= len(rej.block) else "<end>"),
        })
        out.rejections.append((rej, rdir, known))
    return stats


def selftest_corruption(exe, script_obj, out, mutate, label, trace_cfg, trace_module="TraceYomm2.tla", must=True):
    """Negative control for the binding: execute one script, corrupt the recorded trace with
    `mutate(lines) -> lines` and require TLC to reject it."""
    sp, tp = run_dyn(exe, script_obj.text(), "selftest")
    with open(tp) as f:
        lines = f.readlines()
    _, rej0 = C.validate_trace(trace_module, trace_cfg, tp, parts=1)
    if rej0:
        # the unmodified execution is itself rejected (a violation reported by the main run):
        # nothing can be learnt from corrupting it
        out.selftests.append({"label": label, "applied": False, "note": "clean execution rejected"})
        return None
    new = mutate(list(lines))
    if new == lines:
        out.selftests.append({"label": label, "applied": False})
        return None
    cp = tp + ".corrupt"
    with open(cp, "w") as f:
        f.writelines(new)
    _, rej1 = C.validate_trace(trace_module, trace_cfg, cp, parts=1)
    ok = (not rej0) and bool(rej1)
    if not ok and not must:
        return False     # this particular corruption happened to be harmless; the caller tries another script
    out.selftests.append({"label": label, "applied": True, "clean_accepted": not rej0, "corrupt_rejected": bool(rej1)})
    return ok


def report(pid, tier, seed, out, t0, level, rule, assumptions, extra_cov=None, exhaustive=False):
    """Print verdict lines, write evidence, return exit code."""
    violations = 0
    for rej, rdir, known in out.rejections:
        if known:
            print("KNOWN-FINDING: property=%s %s" % (pid, known))
        else:
            violations += 1
            print("VIOLATION property=%s replay=%s" % (pid, rdir))
            ev = rej.event()
            print("  script %s bindings %s: first unexplained event (line %d): %s" %
                  (rej.script_id, ",".join(rej.bindings), rej.line, json.dumps(ev)[:400]))
    if out.more_rejections:
        print("  (+%d further rejected executions not individually re-run)" % out.more_rejections)
    for st in out.selftests:
        if not violations and st.get("applied") and not (st.get("clean_accepted") and st.get("corrupt_rejected")):
            raise C.ToolFailure("self-test '%s' failed: the trace spec does not bind (%s)" % (st["label"], st))
    if not violations and out.need_selftest and not any(st.get("applied") and st.get("corrupt_rejected") for st in out.selftests):
        raise C.ToolFailure("self-test: no corrupted trace was rejected")
    cov = {
        "states": out.model_distinct + out.trace_distinct,
        "transitions": out.model_states + out.trace_states,
        "traces_validated_against_impl": out.executions,
        "samples": out.samples[:3] or [{"note": "no script executed"}],
        "model_states_generated": out.model_states,
        "model_distinct_states": out.model_distinct,
        "model_runs": out.model_runs,
        "trace_states_generated": out.trace_states,
        "trace_lines_validated": out.trace_lines,
        "scripts": out.scripts,
        "script_x_policy_executions": out.policy_runs,
        "evaluations": out.policy_runs,
        "distinct_nontrivial": out.scripts,
        "rule": rule,
        "trace_action_counts": out.action_counts,
        "selftests": out.selftests,
        "notes": out.notes,
        "exhaustive": exhaustive,
    }
    if extra_cov:
        cov.update(extra_cov)
    C.write_evidence(pid, tier, seed, level, cov, time.time() - t0, violations, assumptions)
    print("%s %s: %d scripts, %d script x policy executions, %d trace lines validated, model states %d, "
          "trace states %d, rejections %d (unlisted %d), %.1fs" %
          (pid, tier, out.scripts, out.policy_runs, out.trace_lines, out.model_states, out.trace_states,
           len(out.rejections), violations, time.time() - t0))
    return 1 if violations else 0
