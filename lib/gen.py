"""gen harness: programs generated from spec states, compiled against /repo's headers with the real
compiler front end (macros, thunks, template helpers), run, their ndjson logs validated by TLC."""
import concurrent.futures as cf
import os

import common as C

PRELUDE = r'''
#include <yorel/yomm2/core.hpp>
#include <yorel/yomm2/symbols.hpp>
#include <yorel/yomm2/templates.hpp>
#include <cstdio>
#include <string>
#include <vector>
namespace verif_hooks { std::size_t hash_budget = 0; Sink* sink = nullptr; }
using namespace yorel::yomm2;
'''


# first statements of main() in generated programs: line-buffered log, and a last word when the program dies, so that the trace
# shows where (needs <csignal> and <unistd.h>, which PRELUDE_DEATH brings in)
PRELUDE_DEATH = "#include <csignal>\n#include <unistd.h>\n"
MAIN_DEATH = r'''    std::setvbuf(stdout, nullptr, _IOLBF, 1 << 16);
    for (int sig : {SIGSEGV, SIGABRT, SIGBUS, SIGFPE}) std::signal(sig, [](int s) {
        char m[] = "{\"e\":\"died\",\"sig\":00}\n"; m[18] = char(48 + s / 10); m[19] = char(48 + s % 10);
        if (write(1, m, sizeof m - 1)) {} _exit(128 + s); });
'''


def _build_run(args):
    name, text, cxx, flags, d = args
    src = os.path.join(d, name + ".cpp")
    exe = os.path.join(d, name)
    with open(src, "w") as f:
        f.write(text)
    rc, out = C.sh([cxx] + flags + [src, "-o", exe], timeout=1800)
    if rc != 0:
        return name, None, "COMPILE-FAILED\n" + out[-3000:]
    rc, out = C.sh([exe], timeout=300)
    try:
        os.unlink(exe)
    except OSError:
        pass
    return name, rc, out


def build_and_run(programs, cxx="g++", opt="-O0", extra=()):
    """programs: dict name -> C++ text.  Returns dict name -> (rc, stdout) (rc None = did not compile)."""
    d = os.path.join(C.scratch(), "gen")
    os.makedirs(d, exist_ok=True)
    flags = ["-std=c++17", opt, "-w", "-I" + os.path.join(C.REPO, "include"), "-DYOMM2_VERIF",
             "-include", os.path.join(C.HARNESS, "verif_hooks.hpp")] + list(extra)
    jobs = [(n, t, cxx, flags, d) for n, t in programs.items()]
    res = {}
    with cf.ThreadPoolExecutor(max_workers=C.CORES) as ex:
        for name, rc, out in ex.map(_build_run, jobs):
            res[name] = (rc, out)
    return res


def _build_staged(args):
    """One staged program: stage 1 is built and run in its own directory (where it writes slots.hpp and tables.hpp),
    the later stages are built with that directory on the include path."""
    name, text, cxx, flags, d, stages = args
    pd = os.path.join(d, name + ".staged")
    os.makedirs(pd, exist_ok=True)
    src = os.path.join(pd, name + ".cpp")
    with open(src, "w") as f:
        f.write(text)
    out = {}
    gen_files = {}
    for st in [1] + [x for x in stages if x != 1]:
        exe = os.path.join(pd, "s%d" % st)
        rc, o = C.sh([cxx] + flags + ["-DVERIF_STAGE=%d" % st, "-I" + pd, src, "-o", exe], timeout=1800)
        if rc != 0:
            out["%s.s%d" % (name, st)] = (None, "COMPILE-FAILED\n" + o[-3000:])
            if st == 1:
                break
            continue
        rc, o = C.sh([exe], timeout=300, cwd=pd)
        out["%s.s%d" % (name, st)] = (rc, o)
        if st == 1:
            for fn in ("slots.hpp", "tables.hpp"):
                try:
                    gen_files[fn] = open(os.path.join(pd, fn)).read()
                except OSError:
                    gen_files[fn] = None
            if rc != 0 or None in gen_files.values():
                break
    return name, out, gen_files


def build_and_run_staged(programs, stages=(2, 3, 4), cxx="g++", opt="-O0", extra=()):
    """programs: dict name -> staged C++ text.  Returns (results, generated): results maps '<name>.s<stage>' ->
    (rc, stdout); generated maps name -> {'slots.hpp': text, 'tables.hpp': text}."""
    d = os.path.join(C.scratch(), "gen")
    os.makedirs(d, exist_ok=True)
    flags = ["-std=c++17", opt, "-w", "-I" + os.path.join(C.REPO, "include"), "-DYOMM2_VERIF",
             "-include", os.path.join(C.HARNESS, "verif_hooks.hpp")] + list(extra)
    jobs = [(n, t, cxx, flags, d, tuple(stages)) for n, t in programs.items()]
    res, generated = {}, {}
    with cf.ThreadPoolExecutor(max_workers=max(1, C.CORES // 2)) as ex:
        for name, out, gf in ex.map(_build_staged, jobs):
            res.update(out)
            generated[name] = gf
    return res, generated
