"""gen harness: programs generated from spec states, compiled against /repo's headers with the real
compiler front end (macros, thunks, template helpers), run, their ndjson logs validated by TLC."""
import concurrent.futures as cf
import os

import common as C

PRELUDE = r'''
#include <yorel/yomm2/core.hpp>
#include <yorel/yomm2/symbols.hpp>
#include <yorel/yomm2/templates.hpp>
#include <cstdio>
#include <string>
#include <vector>
namespace verif_hooks { std::size_t hash_budget = 0; Sink* sink = nullptr; }
using namespace yorel::yomm2;
'''


def _build_run(args):
    name, text, cxx, flags, d = args
    src = os.path.join(d, name + ".cpp")
    exe = os.path.join(d, name)
    with open(src, "w") as f:
        f.write(text)
    rc, out = C.sh([cxx] + flags + [src, "-o", exe], timeout=1800)
    if rc != 0:
        return name, None, "COMPILE-FAILED\n" + out[-3000:]
    rc, out = C.sh([exe], timeout=300)
    try:
        os.unlink(exe)
    except OSError:
        pass
    return name, rc, out


def build_and_run(programs, cxx="g++", opt="-O0", extra=()):
    """programs: dict name -> C++ text.  Returns dict name -> (rc, stdout) (rc None = did not compile)."""
    d = os.path.join(C.scratch(), "gen")
    os.makedirs(d, exist_ok=True)
    flags = ["-std=c++17", opt, "-w", "-I" + os.path.join(C.REPO, "include"), "-DYOMM2_VERIF",
             "-include", os.path.join(C.HARNESS, "verif_hooks.hpp")] + list(extra)
    jobs = [(n, t, cxx, flags, d) for n, t in programs.items()]
    res = {}
    with cf.ThreadPoolExecutor(max_workers=C.CORES) as ex:
        for name, rc, out in ex.map(_build_run, jobs):
            res[name] = (rc, out)
    return res
