"""Re-execute a saved failing script and re-validate its trace."""
import os
import shutil

import common as C
import family as F

CFG = {"C01": "TraceYomm2_dispatch.cfg", "C02": "TraceYomm2_err.cfg", "C03": "TraceYomm2_dispatch.cfg",
       "C06": "TraceYomm2_dispatch.cfg", "C17": "TraceYomm2_report.cfg"}


def replay(pid, path):
    sp = os.path.join(path, "script.txt")
    if not os.path.exists(sp):
        print("no script.txt under", path)
        return 2
    exe = C.build_dyn()
    with open(sp) as f:
        text = f.read()
    _, tp = F.run_dyn(exe, text, "replay", parallel=False)
    stats, rejs = C.validate_trace("TraceYomm2.tla", CFG.get(pid, "TraceYomm2_all.cfg"), tp, parts=1)
    shutil.copy(tp, os.path.join(path, "trace.replayed.ndjson"))
    if rejs:
        r = rejs[0]
        print("VIOLATION property=%s replay=%s" % (pid, path))
        print("  first unexplained event (line %d): %s" % (r.line, r.block[r.line - 1].strip()[:500] if r.line <= len(r.block) else "<end>"))
        return 1
    print("replay accepted: %d trace lines explained by the specification" % stats["lines"])
    return 0
