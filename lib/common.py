"""Shared plumbing for the yomm2 model-based checks: harness build, TLC runs,
trace validation, evidence, known findings."""
import atexit
import concurrent.futures as cf
import hashlib
import json
import os
import re
import shutil
import subprocess
import sys
import tempfile
import time

VERIF = os.path.dirname(os.path.dirname(os.path.abspath(__file__)))   # /verif, or a snapshot of it (vp run)
REPO = os.environ.get("VERIF_REPO", "/repo")
SPEC = os.path.join(VERIF, "spec")
HARNESS = os.path.join(VERIF, "harness")
BUILD_ROOT = os.path.join(VERIF, ".build")
EVIDENCE = os.path.join(VERIF, "evidence")
REPLAY = os.path.join(VERIF, ".build", "replay")
CORES = min(16, os.cpu_count() or 4)

_scratch = None


def scratch():
    """Per-process scratch directory, removed at exit."""
    global _scratch
    if _scratch is None:
        _scratch = tempfile.mkdtemp(prefix="yomm2-verif.")
        atexit.register(lambda: shutil.rmtree(_scratch, ignore_errors=True))
    return _scratch


class ToolFailure(Exception):
    """The machinery itself failed (TLC crash, harness does not compile...)."""


def sh(cmd, timeout=None, env=None, cwd=None, check=False, inp=None):
    e = dict(os.environ)
    if env:
        e.update(env)
    p = subprocess.run(cmd, shell=isinstance(cmd, str), stdout=subprocess.PIPE, stderr=subprocess.STDOUT,
                       timeout=timeout, env=e, cwd=cwd, input=inp, text=True, errors="replace")
    if check and p.returncode != 0:
        raise ToolFailure("command failed (%d): %s\n%s" % (p.returncode, cmd, p.stdout[-4000:]))
    return p.returncode, p.stdout


# ---------------------------------------------------------------------------
# harness build, keyed by a hash of /repo's working tree and the harness

def tree_hash(paths, extra=""):
    h = hashlib.sha256()
    for root in paths:
        if os.path.isfile(root):
            files = [root]
        else:
            files = []
            for d, _, fs in os.walk(root):
                for f in fs:
                    files.append(os.path.join(d, f))
        for f in sorted(files):
            h.update(f.encode())
            with open(f, "rb") as fh:
                h.update(fh.read())
    h.update(extra.encode())
    return h.hexdigest()[:16]


DYN_POLICIES = ["fast", "chk", "vec", "map", "ind", "indvec", "indfast", "thr", "old", "prj", "prjmap",
                "dfr", "dfrh", "dbg", "rel", "rem", "stdd", "stdr", "stdmap", "wide", "widemap", "small", "smallchk"]

CXX = os.environ.get("VERIF_CXX", "g++")
BASE_FLAGS = ["-std=c++17", "-I" + os.path.join(REPO, "include"), "-DYOMM2_VERIF",
              "-include", os.path.join(HARNESS, "verif_hooks.hpp"), "-w"]


def _compile(args):
    src, obj, flags = args
    rc, out = sh([CXX] + flags + ["-c", src, "-o", obj], timeout=900)
    return rc, out, src, flags


def build_binary(name, units, flags, link_flags=()):
    """Build (or reuse) a harness binary for the current /repo tree.
    units: list of (source, extra_flags, object_name)."""
    key = tree_hash([os.path.join(REPO, "include"), HARNESS], extra=name + " ".join(flags) + CXX)
    bdir = os.path.join(BUILD_ROOT, "h-" + key)
    exe = os.path.join(bdir, name)
    if os.path.exists(exe):
        return exe
    os.makedirs(bdir, exist_ok=True)
    jobs = []
    for src, extra, objname in units:
        jobs.append((src, os.path.join(bdir, name + "." + objname + ".o"), BASE_FLAGS + list(flags) + list(extra)))
    with cf.ThreadPoolExecutor(max_workers=CORES) as ex:
        results = list(ex.map(_compile, jobs))
    for rc, out, src, fl in results:
        if rc != 0:
            raise ToolFailure("harness does not compile against the current tree: %s %s\n%s" %
                              (src, " ".join(fl), out[-6000:]))
    rc, out = sh([CXX, "-o", exe + ".tmp"] + [j[1] for j in jobs] + list(link_flags) + ["-lpthread"], timeout=600)
    if rc != 0:
        raise ToolFailure("harness link failed:\n" + out[-4000:])
    os.replace(exe + ".tmp", exe)
    prune_builds(keep=bdir)
    return exe


def prune_builds(keep):
    """Keep disk use bounded: drop harness builds for other tree hashes (oldest first, keep 3)."""
    try:
        ds = [os.path.join(BUILD_ROOT, d) for d in os.listdir(BUILD_ROOT) if d.startswith("h-")]
        ds = [d for d in ds if d != keep]
        ds.sort(key=lambda d: os.path.getmtime(d))
        for d in ds[:-3]:
            shutil.rmtree(d, ignore_errors=True)
    except OSError:
        pass


def build_simple(name, source, opt="-O1", san=None, extra_flags=(), link=()):
    flags = [opt] + list(extra_flags)
    lnk = list(link)
    bname = name
    if san:
        flags += ["-fsanitize=" + san, "-fno-omit-frame-pointer", "-g1"]
        lnk += ["-fsanitize=" + san]
        bname = name + "-" + san.replace(",", "-")
    return build_binary(bname, [(os.path.join(HARNESS, source), [], "main")], flags, lnk)


def build_dyn(opt="-O1", san=None):
    flags = [opt]
    link = []
    name = "dyn"
    if san:
        flags += ["-fsanitize=" + san, "-fno-omit-frame-pointer", "-g1"]
        link += ["-fsanitize=" + san]
        name = "dyn-" + san.replace(",", "-")
    units = [(os.path.join(HARNESS, "dyn_main.cpp"), [], "main")]
    for p in DYN_POLICIES:
        units.append((os.path.join(HARNESS, "dyn_policy.cpp"), ["-DDYN_POLICY=" + p], "pol_" + p))
    return build_binary(name, units, flags, link)


# ---------------------------------------------------------------------------
# TLC

TLC_JAR = "/opt/veriftools/tla/tla2tools.jar:/opt/veriftools/tla/CommunityModules-deps.jar"
_STATS = re.compile(r"(\d+) states generated, (\d+) distinct states found")


class TlcResult:
    def __init__(self, rc, out, wall):
        self.rc = rc
        self.out = out
        self.wall = wall
        m = None
        for m in _STATS.finditer(out):
            pass
        self.generated = int(m.group(1)) if m else 0
        self.distinct = int(m.group(2)) if m else 0
        self.ok = rc == 0 and "Model checking completed. No error has been found." in out
        self.violation = ("is violated" in out) or ("Error: The postcondition" in out) or \
                         ("Invariant" in out and "violated" in out)

    def printed(self):
        """Lines produced by PrintT(ToJson(x)): JSON string literals."""
        res = []
        for line in self.out.splitlines():
            line = line.strip()
            if line.startswith('"') and line.endswith('"'):
                try:
                    res.append(json.loads(json.loads(line)))
                except Exception:
                    pass
        return res


def tlc(module, cfg, env=None, workers=1, timeout=1800, xmx="4g", simulate=None, extra=(), depth_first=False):
    meta = tempfile.mkdtemp(prefix="tlc.", dir=scratch())
    # TLC unpacks its standard modules into a fresh directory under java.io.tmpdir on every start and leaves it there:
    # point it at the run's own scratch directory, which is removed afterwards
    jopts = ["-XX:+UseParallelGC", "-Xss64m", "-Xmx" + xmx, "-Djava.io.tmpdir=" + meta]
    if depth_first:
        jopts.append("-Dtlc2.tool.queue.IStateQueue=StateDeque")
    cmd = ["java"] + jopts + ["-cp", TLC_JAR, "tlc2.TLC", "-workers", str(workers), "-metadir", meta,
                              "-config", cfg, "-noGenerateSpecTE", "-maxSetSize", "20000000"]
    if simulate:
        cmd += ["-simulate", simulate]
    cmd += list(extra) + [module]
    t0 = time.time()
    try:
        rc, out = sh(cmd, timeout=timeout, env=env, cwd=SPEC)
    except subprocess.TimeoutExpired:
        shutil.rmtree(meta, ignore_errors=True)
        raise ToolFailure("TLC timed out: %s %s" % (module, cfg))
    shutil.rmtree(meta, ignore_errors=True)
    return TlcResult(rc, out, time.time() - t0)


def tlc_model(module, cfg, workers=CORES, timeout=3000, xmx="16g", env=None, must_pass=True):
    """Run a model-checking configuration; returns TlcResult.  A violation on a
    design model is reported by the caller."""
    r = tlc(module, cfg, workers=workers, timeout=timeout, xmx=xmx, env=env)
    if not r.ok and not r.violation:
        raise ToolFailure("TLC failed on %s/%s (rc=%d):\n%s" % (module, cfg, r.rc, r.out[-3000:]))
    return r


# ---------------------------------------------------------------------------
# trace validation

def split_trace(path, parts):
    """Split an ndjson trace at reset boundaries into <= parts chunks of similar size."""
    with open(path) as f:
        lines = f.readlines()
    blocks = []
    cur = []
    for ln in lines:
        if ln.startswith('{"e":"reset"') and cur:
            blocks.append(cur)
            cur = []
        cur.append(ln)
    if cur:
        blocks.append(cur)
    total = sum(len(b) for b in blocks)
    target = max(1, total // max(1, parts))
    chunks, cur, n = [], [], 0
    for b in blocks:
        cur.append(b)
        n += len(b)
        if n >= target and len(chunks) < parts - 1:
            chunks.append(cur)
            cur, n = [], 0
    if cur:
        chunks.append(cur)
    return chunks


class Rejection:
    def __init__(self, block, line_in_block, script_id, bindings):
        self.block = block              # list of trace lines of the rejected execution
        self.line = line_in_block       # 1-based index of the first unexplained line
        self.script_id = script_id
        self.bindings = bindings

    def event(self):
        try:
            return json.loads(self.block[self.line - 1])
        except Exception:
            return None


def _validate_chunk(args):
    module, cfg, chunk, idx, xmx = args
    d = tempfile.mkdtemp(prefix="tr.", dir=scratch())
    tf = os.path.join(d, "t.ndjson")
    with open(tf, "w") as f:
        for b in chunk:
            f.writelines(b)
    nlines = sum(len(b) for b in chunk)
    r = tlc(module, cfg, env={"TRACE": tf}, workers=1, timeout=3000, xmx=xmx)
    rej = None
    if not r.ok:
        m = re.search(r'REJECTED_AT_LINE", (\d+)', r.out)
        if not m:
            shutil.rmtree(d, ignore_errors=True)
            errs = [ln for ln in r.out.splitlines() if ln.startswith("Error") or "Exception" in ln or "Attempted" in ln]
            raise ToolFailure("trace validation failed without a verdict (%s):\n%s\n...\n%s" %
                              (module, "\n".join(errs[:12]), r.out[-1500:]))
        # diameter d means lines 1..d-1 were explained; line d is the first unexplained one
        bad = int(m.group(1))
        n = 0
        for b in chunk:
            if bad <= n + len(b):
                hdr = json.loads(b[0]) if b[0].startswith('{"e":"reset"') else {}
                rej = Rejection(b, bad - n, hdr.get("script", "?"), hdr.get("bindings", []))
                break
            n += len(b)
        if rej is None:
            rej = Rejection(chunk[-1], len(chunk[-1]), "?", [])
    shutil.rmtree(d, ignore_errors=True)
    return r, rej, nlines


def validate_trace(module, cfg, trace_path, parts=CORES, xmx="3g"):
    """Validate a recorded trace with TLC.  Returns (stats, rejections).  After the first
    rejection inside a chunk the remaining executions of that chunk are re-validated
    separately so that every execution gets a verdict."""
    chunks = split_trace(trace_path, parts)
    stats = {"generated": 0, "distinct": 0, "lines": 0, "executions": 0, "tlc_runs": 0, "wall": 0.0}
    rejections = []
    work = [(module, cfg, ch, i, xmx) for i, ch in enumerate(chunks)]
    rounds = 0
    while work and rounds < 50:
        rounds += 1
        with cf.ThreadPoolExecutor(max_workers=min(CORES, max(1, len(work)))) as ex:
            results = list(ex.map(_validate_chunk, work))
        nxt = []
        for (module_, cfg_, ch, i, xmx_), (r, rej, nlines) in zip(work, results):
            stats["generated"] += r.generated
            stats["distinct"] += r.distinct
            stats["tlc_runs"] += 1
            stats["wall"] += r.wall
            if rej is None:
                stats["lines"] += nlines
                stats["executions"] += len(ch)
            else:
                rejections.append(rej)
                k = next(j for j, b in enumerate(ch) if b is rej.block)
                stats["executions"] += k + 1
                stats["lines"] += sum(len(b) for b in ch[:k + 1])
                rest = ch[k + 1:]
                if rest:
                    nxt.append((module_, cfg_, rest, i, xmx_))
        work = nxt
        if len(rejections) > 200:
            break
    return stats, rejections


# ---------------------------------------------------------------------------
# evidence / findings

def load_known_findings():
    """Entries of known_findings.txt with status 'known': list of dicts property, signature, what."""
    p = os.path.join(VERIF, "known_findings.txt")
    res = []
    if not os.path.exists(p):
        return res
    with open(p) as f:
        for ln in f:
            ln = ln.strip()
            m = re.match(r"known: property=(\S+) signature=(\S+) (.*)", ln)
            if m:
                res.append({"property": m.group(1), "signature": m.group(2), "what": m.group(3)})
    return res


def write_evidence(pid, tier, seed, level, coverage, wall, violations, assumptions):
    os.makedirs(EVIDENCE, exist_ok=True)
    ev = {"property_id": pid, "tier": tier, "seed": int(seed), "level": level, "coverage": coverage,
          "assumptions": assumptions, "wall_s": round(wall, 2), "violations": int(violations)}
    with open(os.path.join(EVIDENCE, pid + ".json"), "w") as f:
        json.dump(ev, f, indent=1, sort_keys=False)
        f.write("\n")


def save_replay(pid, name, files):
    """files: dict filename -> text.  Returns the replay directory."""
    d = os.path.join(REPLAY, pid, name)
    os.makedirs(d, exist_ok=True)
    for fn, text in files.items():
        with open(os.path.join(d, fn), "w") as f:
            f.write(text)
    return d
