// C05 harness: real fast_perfect_hash / checked_perfect_hash / vptr_vector (+ indirect) driven with
// arbitrary 64-bit type-id sets through the real update<Policy>().  Records, never judges.
//
// usage: hash <script> <trace>
//   S <id> <policy>     fast | chk | ind | indfast
//   b <n>               attempt budget of the hash search per table size (hook H1; 0 = library default)
//   r <id>              register a class with this type id      x <id>   unregister it
//   u                   update, then report the installed hash for every registered id
//   l <id>              look the id up through Policy::dynamic_vptr
//   E
#include <yorel/yomm2/core.hpp>

#include <cstdio>
#include <cstdlib>
#include <cstring>
#include <fstream>
#include <iostream>
#include <map>
#include <sstream>
#include <string>
#include <sys/mman.h>
#include <sys/wait.h>
#include <unistd.h>
#include <vector>

using namespace yorel::yomm2;

namespace verif_hooks {
std::size_t hash_budget = 0;
Sink* sink = nullptr;
} // namespace verif_hooks

struct Obj {
    type_id id;
    virtual ~Obj() {}
};
struct id_rtti : policy::rtti {
    template<typename T> static type_id static_type() { return 1; }
    template<typename T> static type_id dynamic_type(const T& o) {
        if constexpr (std::is_base_of_v<Obj, T>) return o.id; else return 2;
    }
    template<class Stream> static void type_name(type_id t, Stream& s) { s << "id#" << t; }
    template<typename D, typename B> static D dynamic_cast_ref(B&& obj) { return dynamic_cast<D>(obj); }
};
namespace pol {
using namespace policy;
struct fast : basic_policy<fast, id_rtti, fast_perfect_hash<fast>, vptr_vector<fast>, vectored_error<fast>> {};
struct chk : basic_policy<chk, id_rtti, checked_perfect_hash<chk>, vptr_vector<chk>, vectored_error<chk>> {};
struct ind : basic_policy<ind, id_rtti, checked_perfect_hash<ind>, vptr_vector<ind>, basic_indirect_vptr<ind>, vectored_error<ind>> {};
struct indfast : basic_policy<indfast, id_rtti, fast_perfect_hash<indfast>, vptr_vector<indfast>, basic_indirect_vptr<indfast>, vectored_error<indfast>> {};
} // namespace pol

struct Thrown {
    int kind; // 1 unknown class, 2 hash search, 9 other
    type_id id;
};

// events go straight to a shared mapping: whatever was recorded survives the death of the child
static char* g_shared;
static std::size_t g_cap;
static void emit(const std::string& s) {
    std::size_t* len = reinterpret_cast<std::size_t*>(g_shared);
    if (*len + s.size() + 17 < g_cap) {
        std::memcpy(g_shared + 16 + *len, s.data(), s.size());
        g_shared[16 + *len + s.size()] = '\n';
        *len += s.size() + 1;
    }
}

template<class P>
struct Run {
    struct Rec {
        detail::class_info* info;
        std::uintptr_t** cell;
    };
    std::map<type_id, Rec> recs;
    static constexpr bool checked = P::template has_facet<policy::runtime_checks>;
    static constexpr bool indirect = P::template has_facet<policy::indirect_vptr>;
    bool installed = false; // a successful update since the last catalog change

    Run() {
        P::classes.clear();
        P::methods.clear();
        P::error = [](const error_type& ev) {
            if (auto e = std::get_if<unknown_class_error>(&ev)) throw Thrown{1, e->type};
            if (std::get_if<hash_search_error>(&ev)) throw Thrown{2, 0};
            throw Thrown{9, 0};
        };
    }
    void reg(type_id id) {
        Rec r;
        r.info = new (std::calloc(1, sizeof(detail::class_info))) detail::class_info;
        r.cell = new std::uintptr_t*(nullptr);
        r.info->type = id;
        r.info->first_base = r.info->last_base = nullptr;
        r.info->static_vptr = r.cell;
        P::classes.push_back(*r.info);
        recs[id] = r;
        installed = false;
        emit("{\"e\":\"hreg\",\"id\":\"" + std::to_string(id) + "\"}");
    }
    void unreg(type_id id) {
        auto it = recs.find(id);
        if (it == recs.end()) return;
        P::classes.remove(*it->second.info);
        recs.erase(it);
        installed = false;
        emit("{\"e\":\"hunreg\",\"id\":\"" + std::to_string(id) + "\"}");
    }
    void update() {
        std::string ev = "{\"e\":\"hq\",\"hashed\":true,\"budget\":" + std::to_string(verif_hooks::hash_budget);
        installed = false;
        try {
            yorel::yomm2::update<P>();
            installed = true;
        } catch (const Thrown& t) {
            emit(ev + ",\"res\":\"" + (t.kind == 2 ? "hashfail" : "weird") + "\",\"rows\":[],\"size\":0}");
            return;
        }
        std::string rows;
        for (auto& [id, r] : recs) {
            // the index the installed (unchecked) hash function gives, then what the policy's own
            // look-up (checked where applicable) says
            std::size_t idx = policy::fast_perfect_hash<P>::hash_type_id(id);
            bool holds = idx < P::vptrs.size() && P::vptrs[idx] == *r.cell;
            if constexpr (indirect) {
                holds = holds && idx < P::indirect_vptrs.size() && P::indirect_vptrs[idx] == r.cell;
            }
            try {
                if (P::hash_type_id(id) != idx) holds = false;
            } catch (const Thrown&) {
                holds = false;
            }
            // index as a (possibly huge) number: clamp what cannot be a legal index so that it stays a JSON int32
            long shown = idx < (1u << 30) ? (long)idx : (1l << 30);
            rows += (rows.empty() ? "[\"" : ",[\"") + std::to_string(id) + "\"," + std::to_string(shown) + "," +
                    (holds ? "true" : "false") + "]";
        }
        emit(ev + ",\"res\":\"ok\",\"rows\":[" + rows + "],\"size\":" + std::to_string(P::vptrs.size()) + "}");
    }
    void lookup(type_id id) {
        bool registered = recs.count(id) != 0;
        if (!installed || (!registered && !checked)) {
            return; // not a legal use (no valid tables / unchecked policy and unknown id): not exercised
        }
        Obj o;
        o.id = id;
        std::string ev = "{\"e\":\"hl\",\"id\":\"" + std::to_string(id) + "\",\"checked\":" + (checked ? "true" : "false");
        try {
            const std::uintptr_t* v = P::dynamic_vptr(o);
            bool same = registered && v == *recs[id].cell;
            emit(ev + ",\"res\":\"found\",\"rid\":\"\",\"same\":" + (same ? "true" : "false") + "}");
        } catch (const Thrown& t) {
            emit(ev + ",\"res\":\"" + (t.kind == 1 ? "unknown" : "weird") + "\",\"rid\":\"" + std::to_string(t.id) + "\",\"same\":false}");
        }
    }
};

struct Script {
    std::string id, policy;
    std::vector<std::pair<char, type_id>> ops;
};

template<class P>
static void run(const Script& sc) {
    Run<P> r;
    for (auto& [k, v] : sc.ops) {
        switch (k) {
        case 'b': verif_hooks::hash_budget = v; emit("{\"e\":\"budget\",\"n\":" + std::to_string(v) + "}"); break;
        case 'r': r.reg(v); break;
        case 'x': r.unreg(v); break;
        case 'u': r.update(); break;
        case 'l': r.lookup(v); break;
        }
    }
}

int main(int argc, char** argv) {
    if (argc < 3) return 2;
    std::ifstream in(argv[1]);
    FILE* out = std::fopen(argv[2], "w");
    if (!in || !out) return 2;
    std::vector<Script> scripts;
    std::string line;
    Script cur;
    while (std::getline(in, line)) {
        std::istringstream ss(line);
        std::string k;
        ss >> k;
        if (k == "S") {
            cur = Script();
            ss >> cur.id >> cur.policy;
        } else if (k == "E") {
            scripts.push_back(cur);
        } else if (!k.empty()) {
            std::string v;
            ss >> v;
            cur.ops.push_back({k[0], v.empty() ? 0 : std::strtoull(v.c_str(), nullptr, 10)});
        }
    }
    const std::size_t cap = 32u << 20;
    char* shared = static_cast<char*>(mmap(nullptr, cap, PROT_READ | PROT_WRITE, MAP_SHARED | MAP_ANONYMOUS, -1, 0));
    g_shared = shared;
    g_cap = cap;
    for (auto& sc : scripts) {
        std::fprintf(out, "{\"e\":\"reset\",\"script\":\"%s\",\"bindings\":[\"%s\"]}\n", sc.id.c_str(), sc.policy.c_str());
        std::fflush(out);
        std::size_t* len = reinterpret_cast<std::size_t*>(shared);
        *len = 0;
        pid_t pid = fork();
        if (pid == 0) {
            alarm(120);
            if (sc.policy == "fast") run<pol::fast>(sc);
            else if (sc.policy == "chk") run<pol::chk>(sc);
            else if (sc.policy == "ind") run<pol::ind>(sc);
            else run<pol::indfast>(sc);
            _exit(0);
        }
        int status = 0;
        waitpid(pid, &status, 0);
        std::fwrite(shared + 16, 1, *len, out);
        if (WIFSIGNALED(status)) {
            std::fprintf(out, "{\"e\":\"died\",\"sig\":%d}\n", WTERMSIG(status));
        }
        std::fprintf(out, "{\"e\":\"end\"}\n");
    }
    std::fclose(out);
    return 0;
}
