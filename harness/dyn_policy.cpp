// One translation unit per policy configuration: -DDYN_POLICY=<name in dyn::pol>
#include "dyn_runner.hpp"

#define STR2(x) #x
#define STR(x) STR2(x)

namespace {
dyn::IRunner* factory() {
    return new dyn::Runner<dyn::pol::DYN_POLICY>(STR(DYN_POLICY));
}
struct Reg {
    Reg() {
        dyn::register_runner(STR(DYN_POLICY), &factory);
    }
} reg;
} // namespace
