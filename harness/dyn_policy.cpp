// One translation unit per policy configuration: -DDYN_POLICY=<name in dyn::pol>
// generator.hpp defines two non-inline member functions: give the class a distinct name in every
// translation unit so that the policy TUs can be linked together
#define DYN_CAT2(a, b) a##b
#define DYN_CAT(a, b) DYN_CAT2(a, b)
#define generator DYN_CAT(generator_, DYN_POLICY)
#include "dyn_runner.hpp"

#define STR2(x) #x
#define STR(x) STR2(x)

namespace {
dyn::IRunner* factory() {
    return new dyn::Runner<dyn::pol::DYN_POLICY>(STR(DYN_POLICY));
}
struct Reg {
    Reg() {
        dyn::register_runner(STR(DYN_POLICY), &factory);
    }
} reg;
} // namespace
