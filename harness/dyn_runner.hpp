// dyn harness: Runner<P> drives the real yomm2 templates for policy P with
// registries built at run time.  class_info / method_info / definition_info
// are the library's own plain records; everything executed (update, resolve,
// operator(), virtual_ptr, policies, handlers) is the library's code.
#ifndef VERIF_DYN_RUNNER_HPP
#define VERIF_DYN_RUNNER_HPP

#include "dyn_policies.hpp"

#include <yorel/yomm2/generator.hpp>

#include <sstream>

#include <cstdlib>
#include <new>
#include <utility>

namespace dyn {

constexpr int MAXD = 10; // recorder definitions per method

// ---------------------------------------------------------------------------
// parameter kinds
template<class P, char C>
struct Param;
template<class P>
struct Param<P, 'V'> { // virtual_<Obj&>
    using decl = virtual_<Obj&>;
    using arg = Obj&;
    static arg make(Obj* o, int) {
        return *o;
    }
    static void note(arg a, int) {
        g_rec.recv_cls[g_rec.nrecv] = a.cls;
        g_rec.recv_oid[g_rec.nrecv++] = a.oid;
    }
};
template<class P>
struct Param<P, 'W'> { // virtual_<Obj*>
    using decl = virtual_<Obj*>;
    using arg = Obj*;
    static arg make(Obj* o, int) {
        return o;
    }
    static void note(arg a, int) {
        g_rec.recv_cls[g_rec.nrecv] = a->cls;
        g_rec.recv_oid[g_rec.nrecv++] = a->oid;
    }
};
template<class P>
struct Param<P, 'S'> { // virtual_<std::shared_ptr<Obj>>
    using decl = virtual_<std::shared_ptr<Obj>>;
    using arg = std::shared_ptr<Obj>;
    static arg make(Obj* o, int) {
        return std::shared_ptr<Obj>(o, [](Obj*) {});
    }
    static void note(const arg& a, int) {
        g_rec.recv_cls[g_rec.nrecv] = a->cls;
        g_rec.recv_oid[g_rec.nrecv++] = a->oid;
    }
};
template<class P>
struct Param<P, 'P'> { // virtual_ptr<Obj, P>
    using decl = virtual_ptr<Obj, P>;
    using arg = virtual_ptr<Obj, P>;
    static arg make(Obj* o, int) {
        return virtual_ptr<Obj, P>(*o);
    }
    static void note(const arg& a, int) {
        g_rec.recv_cls[g_rec.nrecv] = a->cls;
        g_rec.recv_oid[g_rec.nrecv++] = a->oid;
    }
};
template<class P>
struct Param<P, 'R'> { // const virtual_ptr<Obj, P>&
    using decl = const virtual_ptr<Obj, P>&;
    using arg = const virtual_ptr<Obj, P>&;
    static virtual_ptr<Obj, P> make(Obj* o, int) {
        return virtual_ptr<Obj, P>(*o);
    }
    static void note(arg a, int) {
        g_rec.recv_cls[g_rec.nrecv] = a->cls;
        g_rec.recv_oid[g_rec.nrecv++] = a->oid;
    }
};
template<class P>
struct Param<P, 'Q'> { // virtual_shared_ptr<Obj, P>
    using decl = virtual_ptr<std::shared_ptr<Obj>, P>;
    using arg = virtual_ptr<std::shared_ptr<Obj>, P>;
    static arg make(Obj* o, int) {
        return arg(std::shared_ptr<Obj>(o, [](Obj*) {}));
    }
    static void note(const arg& a, int) {
        g_rec.recv_cls[g_rec.nrecv] = a->cls;
        g_rec.recv_oid[g_rec.nrecv++] = a->oid;
    }
};
template<class P>
struct Param<P, 'N'> { // non-virtual int
    using decl = int;
    using arg = int;
    static arg make(Obj*, int pos) {
        return 1000 + pos;
    }
    static void note(arg a, int pos) {
        if (a != 1000 + pos) {
            g_rec.nonvirt_ok = false;
        }
    }
};

template<int Key, char... S>
struct MKey {};
constexpr int kStaticKey = 7; // pool methods with this key read their offsets from static_offsets<>

} // namespace dyn

namespace yorel {
namespace yomm2 {
namespace detail {
// Mutable "generated header": the methods of the pool with key kStaticKey take the static-offset
// path of resolve(); the harness fills these arrays at run time with the numbers the generator wrote.
template<char... S, class Sig, class P>
struct static_offsets<method<dyn::MKey<dyn::kStaticKey, S...>, Sig, P>> {
    static inline std::size_t slots[4];
    static inline std::size_t strides[3];
};
} // namespace detail
} // namespace yomm2
} // namespace yorel

namespace dyn {

template<char... S>
struct ShapeInfo {
    static constexpr char chars[sizeof...(S) + 1] = {S..., 0};
    static constexpr int vidx(int pos) {
        int n = 0;
        for (int i = 0; i < pos; ++i) {
            if (chars[i] != 'N') {
                ++n;
            }
        }
        return n;
    }
    static constexpr int arity = vidx(sizeof...(S));
};

struct Slot {
    std::string shape;
    int key = 0;
    int arity = 0;
    detail::method_info* info = nullptr;
    void* rec_pf[MAXD] = {};
    std::uintptr_t (*do_resolve)(Obj* const*) = nullptr;
    int (*do_call)(Obj* const*) = nullptr;
    int (*call_ptr)(void*, Obj* const*) = nullptr;
    int (*do_call_vp)(const void* const*) = nullptr; // virtual args given as ready-made virtual_ptr objects ('P','R','Q' shapes)
    std::size_t* so_slots = nullptr;   // static_offsets arrays (key kStaticKey only)
    std::size_t* so_strides = nullptr;
    bool so_loaded = false, so_exact = false; // loaded since the last update / equal to what the generator wrote
    std::vector<std::size_t> gen_slots, gen_strides; // what the generator wrote for this method, last time
    // run-time state
    bool allocated = false, declared = false;
    int m = -1;
    std::vector<int> vp;
    std::vector<type_id> vp_ids;
};

template<class P, int Key, char... S>
struct MS {
    using SI = ShapeInfo<S...>;
    using M = method<MKey<Key, S...>, int(typename Param<P, S>::decl...), P>;
    using fptr = int (*)(typename Param<P, S>::arg...);

    template<int K>
    static int recorder(typename Param<P, S>::arg... a) {
        g_rec.def = K;
        int pos = 0;
        (Param<P, S>::note(a, pos++), ...);
        return 7000 + K;
    }

    template<std::size_t... I>
    static std::uintptr_t resolve_(Obj* const* o, std::index_sequence<I...>) {
        return reinterpret_cast<std::uintptr_t>(M::fn.resolve(
            detail::argument_traits<P, typename Param<P, S>::decl>::rarg(
                Param<P, S>::make(o[SI::vidx(I)], I))...));
    }
    static std::uintptr_t do_resolve(Obj* const* o) {
        return resolve_(o, std::make_index_sequence<sizeof...(S)>());
    }
    template<std::size_t... I>
    static int call_(Obj* const* o, std::index_sequence<I...>) {
        return M::fn(Param<P, S>::make(o[SI::vidx(I)], I)...);
    }
    static int do_call(Obj* const* o) {
        return call_(o, std::make_index_sequence<sizeof...(S)>());
    }
    template<std::size_t... I>
    static int callp_(void* pf, Obj* const* o, std::index_sequence<I...>) {
        return reinterpret_cast<fptr>(pf)(Param<P, S>::make(o[SI::vidx(I)], I)...);
    }
    static int call_ptr(void* pf, Obj* const* o) {
        return callp_(pf, o, std::make_index_sequence<sizeof...(S)>());
    }
    // call with ready-made handles: vp[i] points to a virtual_ptr<Obj,P> ('P','R') or virtual_shared_ptr<Obj,P> ('Q')
    template<char C>
    static decltype(auto) from_handle(const void* const* vp, int pos) {
        if constexpr (C == 'N') {
            return 1000 + pos;
        } else if constexpr (C == 'Q') {
            return *static_cast<const virtual_ptr<std::shared_ptr<Obj>, P>*>(vp[SI::vidx(pos)]);
        } else {
            return *static_cast<const virtual_ptr<Obj, P>*>(vp[SI::vidx(pos)]);
        }
    }
    static constexpr bool handle_shape = ((S == 'P' || S == 'R' || S == 'Q' || S == 'N') && ...);
    template<std::size_t... I>
    static int callvp_(const void* const* vp, std::index_sequence<I...>) {
        if constexpr (handle_shape) {
            return M::fn(from_handle<S>(vp, I)...);
        } else {
            return -1;
        }
    }
    static int do_call_vp(const void* const* vp) {
        return callvp_(vp, std::make_index_sequence<sizeof...(S)>());
    }
    template<int... K>
    static void fill_recorders(Slot& s, std::integer_sequence<int, K...>) {
        ((s.rec_pf[K] = (void*)&recorder<K>), ...);
    }
    static Slot make() {
        Slot s;
        s.shape = SI::chars;
        s.key = Key;
        s.arity = SI::arity;
        s.info = &M::fn;
        fill_recorders(s, std::make_integer_sequence<int, MAXD>());
        s.do_resolve = &do_resolve;
        s.do_call = &do_call;
        s.call_ptr = &call_ptr;
        s.do_call_vp = handle_shape ? &do_call_vp : nullptr;
        if constexpr (Key == kStaticKey) {
            s.shape = "s" + s.shape;
            s.so_slots = detail::static_offsets<M>::slots;
            s.so_strides = detail::static_offsets<M>::strides;
        }
        return s;
    }
};

template<class P, typename = void>
struct has_call_error : std::false_type {};
template<class P>
struct has_call_error<P, std::void_t<decltype(P::call_error)>> : std::true_type {};

template<class P>
constexpr bool has_vectored_error = std::is_assignable_v<decltype((P::error)), error_handler_type>;

// ---------------------------------------------------------------------------
template<class P>
struct Runner : IRunner {
    static constexpr bool is_std = std::is_base_of_v<policy::std_rtti, P>;
    static constexpr bool is_deferred = std::is_base_of_v<policy::deferred_static_rtti, P>;
    static constexpr bool is_proj = std::is_base_of_v<proj_rtti, P>;
    static constexpr bool is_wide = std::is_base_of_v<wide_rtti, P>;
    static constexpr bool is_small = std::is_base_of_v<small_rtti, P>;

    const char* name_;
    std::vector<Slot> pool;

    struct ClassRec {
        detail::class_info* info;
        std::vector<type_id> bases; // + flag word (deferred)
        int c;
        int alias;
    };
    struct DefRec {
        detail::definition_info* info;
        std::vector<type_id> vp_ids;
        std::vector<int> vp;
        void* next_slot = nullptr;
        int m, d;
    };
    std::map<int, ClassRec> recs;
    std::map<int, std::uintptr_t**> static_vptr; // per class: what &Policy::static_vptr<Class> is
    std::map<int, std::set<int>> reg_aliases;   // class -> aliases currently registered
    std::map<std::pair<int, int>, DefRec> defs;
    std::deque<std::unique_ptr<Obj>> objs;
    std::string handler_kind = "throw";
    static Runner* self;

    explicit Runner(const char* n) : name_(n) {
        build_pool();
    }

    template<int Key, char... S>
    void add() {
        pool.push_back(MS<P, Key, S...>::make());
    }
    void build_pool() {
        add<0, 'V'>(); add<1, 'V'>(); add<2, 'V'>(); add<3, 'V'>(); add<4, 'V'>(); add<5, 'V'>();
        add<0, 'N', 'V'>(); add<0, 'V', 'N'>(); add<0, 'P'>(); add<1, 'P'>(); add<0, 'W'>(); add<0, 'S'>();
        add<0, 'V', 'V'>(); add<1, 'V', 'V'>(); add<2, 'V', 'V'>();
        add<0, 'V', 'N', 'V'>(); add<1, 'V', 'N', 'V'>(); add<0, 'N', 'V', 'V', 'N'>();
        add<0, 'P', 'P'>(); add<0, 'V', 'P'>(); add<0, 'P', 'N', 'V'>(); add<0, 'W', 'S'>();
        add<0, 'V', 'V', 'V'>(); add<1, 'V', 'V', 'V'>(); add<0, 'V', 'N', 'V', 'N', 'V'>();
        add<0, 'P', 'V', 'P'>(); add<0, 'N', 'V', 'N', 'V', 'N', 'V'>();
        add<0, 'V', 'V', 'V', 'V'>(); add<0, 'V', 'N', 'V', 'V', 'N', 'V'>(); add<0, 'P', 'V', 'V', 'P'>();
        add<7, 'V'>(); add<7, 'V', 'V'>(); add<7, 'V', 'N', 'V'>(); add<7, 'V', 'V', 'V'>(); add<7, 'V', 'N', 'V', 'N', 'V'>();
        add<7, 'V', 'V', 'V', 'V'>(); add<7, 'P', 'V', 'P'>(); add<7, 'N', 'V', 'V', 'N'>();
        add<0, 'R'>(); add<0, 'Q'>(); add<0, 'R', 'N', 'P'>(); add<0, 'Q', 'Q'>(); add<0, 'P', 'N', 'R', 'P'>();
    }

    const char* name() const override { return name_; }
    bool hashed() const override { return P::template has_facet<policy::type_hash>; }
    bool indirect() const override { return P::template has_facet<policy::indirect_vptr>; }
    bool checked() const override { return P::template has_facet<policy::runtime_checks>; }
    bool deferred() const override { return is_deferred; }
    int aliases() const override { return is_proj ? 3 : 1; }

    // ---- id scheme
    template<int... I>
    static type_id std_id_(int c, std::integer_sequence<int, I...>) {
        type_id r = 0;
        ((c == I ? (r = reinterpret_cast<type_id>(&typeid(StdObj<I>)), 0) : 0), ...);
        return r;
    }
    template<int... I>
    static Obj* std_new_(int c, std::integer_sequence<int, I...>) {
        Obj* r = nullptr;
        ((c == I ? (r = new StdObj<I>, 0) : 0), ...);
        return r;
    }
    template<int... I>
    static type_id deferred_fn_(int c, std::integer_sequence<int, I...>) {
        type_id r = 0;
        ((c == I ? (r = reinterpret_cast<type_id>(&deferred_fn<I>), 0) : 0), ...);
        return r;
    }
    // the id an object / resolved catalog entry carries
    static type_id real_id(int c, int alias) {
        if constexpr (is_std) {
            return std_id_(c, std::make_integer_sequence<int, kStdPool>());
        } else if constexpr (is_small) {
            return type_id(c) - 1;
        } else if constexpr (is_wide) {
            return (type_id(c) << 32) | 16;
        } else {
            return 16 * type_id(c) + alias;
        }
    }
    // what goes in a catalog id list
    static type_id catalog_id(int c, int alias) {
        if constexpr (is_deferred) {
            g_deferred_id[c] = 16 * type_id(c);
            return deferred_fn_(c, std::make_integer_sequence<int, 64>());
        } else {
            return real_id(c, alias);
        }
    }
    int class_of_id(type_id id) const override {
        if constexpr (is_std) {
            for (int c = 0; c < kStdPool; ++c) {
                if (real_id(c, 0) == id) {
                    return c;
                }
            }
            return -1;
        } else if constexpr (is_small) {
            return id < 63 ? int(id) + 1 : -1;
        } else if constexpr (is_wide) {
            if ((id & 0xffffffffu) == 16 && (id >> 32) >= 1 && (id >> 32) < 64) {
                return int(id >> 32);
            }
            return -1;
        } else {
            if (id >= 16 && id < 16 * 64 && (id % 16) < 3) {
                return int(id / 16);
            }
            return -1;
        }
    }

    void begin() override {
        self = this;
        P::methods.clear();
        P::classes.clear();
        set_handler("throw");
    }

    // ---- catalogs
    void add_class(int r, int c, const std::vector<int>& bases, bool abs) override {
        ClassRec& cr = recs[r];
        cr.c = c;
        cr.alias = is_proj ? (r % 3) : 0;
        void* mem = std::calloc(1, sizeof(detail::class_info));
        cr.info = new (mem) detail::class_info;
        int k = 0;
        for (int b : bases) {
            // a projected policy may name a base by any of its ids
            cr.bases.push_back(catalog_id(b, is_proj ? ((r + k++) % 3) : 0));
        }
        cr.bases.push_back(0); // flag word (only read by deferred policies)
        cr.info->type = catalog_id(c, cr.alias);
        if (bases.empty()) {
            // what type_id_list<Policy, types<>> provides: no storage, no flag word
            cr.info->first_base = cr.info->last_base = nullptr;
        } else {
            cr.info->first_base = cr.bases.data();
            cr.info->last_base = cr.bases.data() + bases.size();
        }
        cr.info->is_abstract = abs;
        auto it = static_vptr.find(c);
        if (it == static_vptr.end()) {
            std::uintptr_t** cell = nullptr;
            // a class standing for a node of the C++ chain uses the library's own static_vptr<Node<k>>
            for (int k = 0; k < kNodes; ++k) {
                if (node_cls[k] == c) {
                    cell = node_cell(k);
                }
            }
            it = static_vptr.emplace(c, cell ? cell : new std::uintptr_t*(nullptr)).first;
        }
        cr.info->static_vptr = it->second;
        P::classes.push_back(*cr.info);
        reg_aliases[c].insert(cr.alias);
    }
    void remove_class(int r) override {
        auto it = recs.find(r);
        if (it == recs.end()) {
            return;
        }
        P::classes.remove(*it->second.info);
        int c = it->second.c, a = it->second.alias;
        recs.erase(it);
        bool still = false;
        for (auto& [k, v] : recs) {
            if (v.c == c && v.alias == a) {
                still = true;
            }
        }
        if (!still) {
            reg_aliases[c].erase(a);
        }
    }
    Slot* slot_of(int m) {
        for (auto& s : pool) {
            if (s.allocated && s.m == m) {
                return &s;
            }
        }
        return nullptr;
    }
    bool add_method(int m, const std::string& shape, const std::vector<int>& vp) override {
        Slot* s = slot_of(m);
        if (!s) {
            for (auto& c : pool) {
                if (!c.allocated && c.shape == shape) {
                    s = &c;
                    break;
                }
            }
            if (!s) {
                return false;
            }
            s->allocated = true;
            s->m = m;
        } else if (s->shape != shape || s->declared) {
            return false;
        }
        if ((int)vp.size() != s->arity) {
            return false;
        }
        s->vp = vp;
        s->vp_ids.clear();
        int k = 0;
        for (int c : vp) {
            s->vp_ids.push_back(catalog_id(c, is_proj ? ((m + k++) % 3) : 0));
        }
        s->vp_ids.push_back(0);
        s->info->vp_begin = s->vp_ids.data();
        s->info->vp_end = s->vp_ids.data() + vp.size();
        P::methods.push_back(*s->info);
        s->declared = true;
        return true;
    }
    void remove_method(int m) override {
        Slot* s = slot_of(m);
        if (s && s->declared) {
            P::methods.remove(*s->info);
            s->declared = false;
        }
    }
    bool add_def(int m, int d, const std::vector<int>& vp) override {
        Slot* s = slot_of(m);
        if (!s || d < 0 || d >= MAXD || (int)vp.size() != s->arity || defs.count({m, d})) {
            return false;
        }
        DefRec& dr = defs[{m, d}];
        dr.m = m;
        dr.d = d;
        dr.vp = vp;
        int k = 0;
        for (int c : vp) {
            dr.vp_ids.push_back(catalog_id(c, is_proj ? ((d + k++) % 3) : 0));
        }
        dr.vp_ids.push_back(0);
        void* mem = std::calloc(1, sizeof(detail::definition_info));
        dr.info = new (mem) detail::definition_info;
        dr.info->method = s->info;
        dr.info->type = P::template static_type<DefRec>(); // only used by trace output
        dr.info->next = &dr.next_slot;
        dr.info->vp_begin = dr.vp_ids.data();
        dr.info->vp_end = dr.vp_ids.data() + vp.size();
        dr.info->pf = s->rec_pf[d];
        s->info->specs.push_back(*dr.info);
        return true;
    }
    void remove_def(int m, int d) override {
        auto it = defs.find({m, d});
        if (it == defs.end()) {
            return;
        }
        Slot* s = slot_of(m);
        s->info->specs.remove(*it->second.info);
        it->second.info->method = nullptr;
        defs.erase(it);
    }

    // ---- handlers
    static void throwing_handler(const error_type& ev) {
        throw to_caught(ev);
    }
    static void returning_handler(const error_type& ev) {
        if (self->on_error_return) {
            self->on_error_return(to_caught(ev));
        }
    }
    static void throwing_call_error(const method_call_error& error, std::size_t arity, type_id* types) {
        Caught c;
        c.kind = Caught::resolution;
        c.status = (int)error.code;
        c.arity = arity;
        for (std::size_t i = 0; i < arity && i < 16; ++i) {
            c.types[i] = types[i];
        }
        throw c;
    }
    static void returning_call_error(const method_call_error& error, std::size_t arity, type_id* types) {
        Caught c;
        c.kind = Caught::resolution;
        c.status = (int)error.code;
        c.arity = arity;
        for (std::size_t i = 0; i < arity && i < 16; ++i) {
            c.types[i] = types[i];
        }
        if (self->on_error_return) {
            self->on_error_return(c);
        }
    }
    void set_handler(const std::string& kind) override {
        handler_kind = kind;
        if constexpr (has_call_error<P>::value) {
            // deprecated protocol: resolution errors go through call_error,
            // via the policy's own default error handler
            P::call_error = kind == "throw" ? &throwing_call_error : &returning_call_error;
            P::error = [](const error_type& ev) {
                if (std::holds_alternative<resolution_error>(ev)) {
                    policy::backward_compatible_error_handler<P>::default_error_handler(ev);
                } else {
                    throw to_caught(ev);
                }
            };
        } else if constexpr (has_vectored_error<P>) {
            if (kind == "throw") {
                P::error = &throwing_handler;
            } else {
                P::error = &returning_handler;
            }
        }
    }

    // ---- update
    UpdateResult update() override {
        UpdateResult r;
        auto fill = [&](const Caught& c) {
            if (c.kind == Caught::unknown_class) {
                r.res = UpdateResult::unknown;
                r.unknown_id = c.type;
            } else if (c.kind == Caught::hash_search) {
                r.res = UpdateResult::hashfail;
            } else {
                r.res = UpdateResult::other;
            }
        };
        for (auto& sl : pool) {
            sl.so_loaded = false;
        }
        try {
            auto comp = yorel::yomm2::update<P>();
            r.rep.cells = comp.report.cells;
            r.rep.concrete_cells = comp.report.concrete_cells;
            r.rep.not_implemented = comp.report.not_implemented;
            r.rep.concrete_not_implemented = comp.report.concrete_not_implemented;
            r.rep.ambiguous = comp.report.ambiguous;
            r.rep.concrete_ambiguous = comp.report.concrete_ambiguous;
            for (auto& m : comp.methods) {
                if (m.arity() > 1) {
                    r.rep.built += m.dispatch_table.size();
                }
            }
            after_update(comp, r);
            last_comp.reset(new detail::compiler<P>(std::move(comp)));
        } catch (const Caught& c) {
            fill(c);
        } catch (const unknown_class_error& e) {
            r.res = UpdateResult::unknown;
            r.unknown_id = e.type;
        } catch (const hash_search_error&) {
            r.res = UpdateResult::hashfail;
        } catch (const error&) {
            r.res = UpdateResult::other;
        }
        return r;
    }
    std::string layout;
    std::unique_ptr<detail::compiler<P>> last_comp;
    template<class Comp>
    void after_update(Comp& comp, UpdateResult&) {
        // (moved, not copied: the compiler's tables point into its own containers)
        // where things are, relative to the start of the policy's dispatch data (in words)
        const std::uintptr_t* base = P::dispatch_data.data();
        std::string s = "\"size\":" + std::to_string(P::dispatch_data.size()) + ",\"vptr\":[";
        bool first = true;
        std::set<int> live;
        for (auto& [r, cr] : recs) {
            live.insert(cr.c);
        }
        for (int c : live) {
            const std::uintptr_t* vp = *static_vptr[c];
            s += (first ? "[" : ",[") + std::to_string(c) + "," + std::to_string((long)(vp - base)) + "]";
            first = false;
        }
        s += "],\"ms\":[";
        first = true;
        for (auto& sl : pool) {
            if (!sl.declared) {
                continue;
            }
            s += (first ? "[" : ",[") + std::to_string(sl.m) + ",[";
            for (int i = 0; i < sl.arity; ++i) {
                s += (i ? "," : "") + std::to_string(sl.info->slots_strides_ptr[i]);
            }
            s += "],[";
            for (int i = 0; i + 1 < sl.arity; ++i) {
                s += (i ? "," : "") + std::to_string(sl.info->slots_strides_ptr[sl.arity + i]);
            }
            s += "]]";
            first = false;
        }
        s += "],\"dt\":[";
        first = true;
        for (auto& m : comp.methods) {
            if (m.arity() < 2) {
                continue;
            }
            for (auto& sl : pool) {
                if (sl.declared && sl.info == m.info) {
                    s += (first ? "[" : ",[") + std::to_string(sl.m) + "," +
                         std::to_string((long)(m.gv_dispatch_table - base)) + "," +
                         std::to_string(m.dispatch_table.size()) + "]";
                    first = false;
                }
            }
        }
        s += "]";
        layout = s;
    }
    std::string layout_json() const override {
        return layout;
    }

    // ---- objects and calls
    Obj* make_obj(int c, int alias_hint) override {
        Obj* o;
        if constexpr (is_std) {
            o = std_new_(c, std::make_integer_sequence<int, kStdPool>());
        } else {
            o = new Obj;
        }
        int alias = 0;
        if constexpr (is_proj) {
            auto& as = reg_aliases[c];
            if (!as.empty()) {
                auto it = as.begin();
                std::advance(it, alias_hint % as.size());
                alias = *it;
            }
        }
        o->id = is_std ? 0 : real_id(c, alias);
        o->cls = c;
        o->oid = (int)objs.size() + 1;
        objs.emplace_back(o);
        return o;
    }
    int classify(Slot& s, std::uintptr_t pf) {
        if (pf == (std::uintptr_t)s.info->not_implemented) {
            return -1;
        }
        if (pf == (std::uintptr_t)s.info->ambiguous) {
            return -2;
        }
        for (int k = 0; k < MAXD; ++k) {
            if (pf == (std::uintptr_t)s.rec_pf[k]) {
                return k;
            }
        }
        return -99;
    }
    void from_caught(const Caught& c, CallResult& r) {
        if (c.kind == Caught::resolution) {
            r.o = c.status == 1 ? -1 : (c.status == 2 ? -2 : -98);
            r.status = c.status;
            r.arity = c.arity;
            r.types.assign(c.types, c.types + (c.arity < 16 ? c.arity : 16));
        } else if (c.kind == Caught::unknown_class) {
            r.o = -3;
            r.unknown_id = c.type;
        } else if (c.kind == Caught::static_slot) {
            r.o = -4;
        } else if (c.kind == Caught::static_stride) {
            r.o = -5;
        } else {
            r.o = -97;
        }
    }
    template<class F>
    void guarded(CallResult& r, F&& f) {
        try {
            f();
        } catch (const Caught& c) {
            from_caught(c, r);
        } catch (const resolution_error& e) {
            Caught c;
            c.kind = Caught::resolution;
            c.status = (int)e.status;
            c.arity = e.arity;
            std::copy_n(e.types, 16, c.types);
            from_caught(c, r);
        } catch (const unknown_class_error& e) {
            r.o = -3;
            r.unknown_id = e.type;
        } catch (const static_slot_error&) {
            r.o = -4;
        } catch (const static_stride_error&) {
            r.o = -5;
        } catch (const error&) {
            r.o = -97;
        }
    }
    void collect_recv(CallResult& r) {
        r.o = g_rec.def;
        r.recv.assign(g_rec.recv_cls, g_rec.recv_cls + g_rec.nrecv);
        r.recv_oid.assign(g_rec.recv_oid, g_rec.recv_oid + g_rec.nrecv);
        r.nonvirt_ok = g_rec.nonvirt_ok;
    }
    CallResult call(int m, const std::vector<Obj*>& o, Route route) override {
        CallResult r;
        Slot* s = slot_of(m);
        if (!s) {
            r.o = -96;
            return r;
        }
        g_rec.reset();
        g_reads.clear();
        guarded(r, [&] {
            if (route == Route::resolve) {
                r.o = classify(*s, s->do_resolve(o.data()));
            } else {
                r.retval = s->do_call(o.data());
                collect_recv(r);
            }
        });
        for (auto& rd : g_reads) {
            r.reads.push_back({rd.kind, (long)(rd.addr - P::dispatch_data.data())});
        }
        return r;
    }
    void next_of(int m, int d, int& o_called, int& o_ptr) override {
        o_called = o_ptr = -96;
        auto it = defs.find({m, d});
        Slot* s = slot_of(m);
        if (it == defs.end() || !s) {
            return;
        }
        DefRec& dr = it->second;
        o_ptr = classify(*s, (std::uintptr_t)dr.next_slot);
        if (!dr.next_slot) {
            o_called = -95; // never set: nothing to call through
            return;
        }
        std::vector<Obj*> o;
        for (int c : dr.vp) {
            o.push_back(make_obj(c, 0));
        }
        CallResult r;
        g_rec.reset();
        guarded(r, [&] {
            s->call_ptr(dr.next_slot, o.data());
            collect_recv(r);
        });
        o_called = r.o;
    }
    // ---- virtual_ptr handles
    int node_cls[kNodes] = {-1, -1, -1, -1};
    static std::uintptr_t** node_cell(int k) {
        switch (k) {
        case 0: return &P::template static_vptr<Node<0>>;
        case 1: return &P::template static_vptr<Node<1>>;
        case 2: return &P::template static_vptr<Node<2>>;
        default: return &P::template static_vptr<Node<3>>;
        }
    }
    bool map_node(int k, int c) override {
        if (is_std || is_proj || k < 0 || k >= kNodes || static_vptr.count(c)) {
            return false;
        }
        node_cls[k] = c;
        g_node_static_id[k] = real_id(c, 0);
        g_node_cls[k] = c;
        return true;
    }
    template<int K>
    using PV = virtual_ptr<Node<K>, P>;
    template<int K>
    using SV = virtual_ptr<std::shared_ptr<Node<K>>, P>;
    using VPV = std::variant<std::monostate, PV<0>, PV<1>, PV<2>, PV<3>, SV<0>, SV<1>, SV<2>, SV<3>>;
    struct Handle {
        VPV v;
        int k = 0;
        bool shared = false;
        int dyn = 0, oid = 0;
    };
    std::map<int, Handle> handles;
    std::deque<std::shared_ptr<Node<3>>> tops;

    template<class F>
    VpResult vp_guard(F&& f) {
        VpResult r;
        try {
            f(r);
        } catch (const Caught& c) {
            r.ok = false;
            if (c.kind == Caught::unknown_class) {
                r.err = 1;
                r.err_cls = class_of_id(c.type);
            } else if (c.kind == Caught::method_table) {
                r.err = 2;
                r.err_cls = class_of_id(c.type);
            } else {
                r.err = 8;
            }
        } catch (const unknown_class_error& e) {
            r.ok = false;
            r.err = 1;
            r.err_cls = class_of_id(e.type);
        } catch (const method_table_error& e) {
            r.ok = false;
            r.err = 2;
            r.err_cls = class_of_id(e.type);
        } catch (const error&) {
            r.ok = false;
            r.err = 8;
        }
        return r;
    }
    template<int K>
    void make_k(Handle& h, const std::string& route, const std::shared_ptr<Node<3>>& top, VpResult& r) {
        Node<K>& ref = *top;
        if (route == "ref") {
            h.v = PV<K>(ref);
        } else if (route == "refup") {
            // virtual_ptr<Base> built from an lvalue whose static type is a derived class (the next node of the chain)
            if constexpr (K + 1 < kNodes) {
                Node<K + 1>& dref = *top;
                h.v = PV<K>(dref);
            } else {
                r.err = 9;
                return;
            }
        } else if (route == "sh_up") {
            if constexpr (K + 1 < kNodes) {
                std::shared_ptr<Node<K + 1>> sp = top;
                h.v = SV<K>(sp);
                h.shared = true;
            } else {
                r.err = 9;
                return;
            }
        } else if (route == "final") {
            h.v = final_virtual_ptr<P>(ref);
        } else if (route == "sh_lv") {
            std::shared_ptr<Node<K>> sp = top;
            h.v = SV<K>(sp);
            h.shared = true;
        } else if (route == "sh_rv") {
            std::shared_ptr<Node<K>> sp = top;
            h.v = SV<K>(std::move(sp));
            h.shared = true;
        } else if (route == "sh_base") {
            h.v = SV<K>(top); // from a shared_ptr to the most derived C++ type
            h.shared = true;
        } else if (route == "sh_final") {
            std::shared_ptr<Node<K>> sp = top;
            h.v = SV<K>::final(sp);
            h.shared = true;
        } else {
            r.err = 9;
            return;
        }
        r.ok = true;
    }
    VpResult vp_make(int hid, int k, const std::string& route, int c) override {
        if (is_std || is_proj) {
            VpResult r;
            r.err = 9;
            return r;
        }
        return vp_guard([&](VpResult& r) {
            Handle h;
            h.k = k;
            if (route == "mk") {
                // make_virtual_shared creates the object itself: dynamic class = node k's class
                switch (k) {
                case 0: h.v = make_virtual_shared<Node<0>, P>(); break;
                case 1: h.v = make_virtual_shared<Node<1>, P>(); break;
                case 2: h.v = make_virtual_shared<Node<2>, P>(); break;
                default: h.v = make_virtual_shared<Node<3>, P>(); break;
                }
                h.shared = true;
                std::visit([&](auto& vp) {
                    if constexpr (!std::is_same_v<std::decay_t<decltype(vp)>, std::monostate>) {
                        auto* o = const_cast<Obj*>(static_cast<const Obj*>(&*vp));
                        o->oid = 100000 + hid;
                        h.dyn = o->cls;
                        h.oid = o->oid;
                    }
                }, h.v);
                r.ok = true;
            } else {
                auto top = std::make_shared<Node<3>>();
                tops.push_back(top);
                top->id = real_id(c, 0);
                top->cls = c;
                top->oid = 100000 + hid;
                h.dyn = c;
                h.oid = top->oid;
                switch (k) {
                case 0: make_k<0>(h, route, top, r); break;
                case 1: make_k<1>(h, route, top, r); break;
                case 2: make_k<2>(h, route, top, r); break;
                default: make_k<3>(h, route, top, r); break;
                }
            }
            r.oid = h.oid;
            r.dyn = h.dyn;
            if (r.ok) {
                handles[hid] = std::move(h);
            }
        });
    }
    VpResult vp_derive(int hid, int from, const std::string& route, int k) override {
        return vp_guard([&](VpResult& r) {
            auto it = handles.find(from);
            if (it == handles.end()) {
                r.err = 9;
                return;
            }
            Handle& src = it->second;
            Handle h;
            h.shared = src.shared;
            h.dyn = src.dyn;
            h.oid = src.oid;
            h.k = k;
            bool done = false;
            auto try_pair = [&](auto ktag, auto jtag) {
                constexpr int K = decltype(ktag)::value; // target node
                constexpr int J = decltype(jtag)::value; // source node
                if (done || k != K || src.k != J) {
                    return;
                }
                if (!src.shared) {
                    PV<J>& s = std::get<PV<J>>(src.v);
                    if (route == "copy" && K == J) {
                        PV<J> c(s);
                        h.v = c;
                        done = true;
                    } else if (route == "move" && K == J) {
                        PV<J> tmp(s);
                        PV<J> c(std::move(tmp));
                        h.v = c;
                        done = true;
                    } else if (route == "conv") {
                        if constexpr (K <= J) {
                            PV<K> c(s); // converting constructor, derived -> base
                            h.v = c;
                            done = true;
                        }
                    } else if (route == "convmove") {
                        if constexpr (K <= J) {
                            PV<J> tmp(s);
                            PV<K> c(std::move(tmp));
                            h.v = c;
                            done = true;
                        }
                    } else if (route == "cast") {
                        if constexpr (K >= J) {
                            h.v = s.template cast<PV<K>>();
                            done = true;
                        }
                    } else if (route == "assign" || route == "assignmove") {
                        // assignment to an EXISTING virtual_ptr that designates another object (of node K's own class)
                        if constexpr (K <= J) {
                            auto other = std::make_shared<Node<3>>();
                            tops.push_back(other);
                            other->id = g_node_static_id[K];
                            other->cls = g_node_cls[K];
                            other->oid = 0;
                            PV<K> t(static_cast<Node<K>&>(*other));
                            if (route == "assign") {
                                t = s;
                            } else {
                                PV<J> tmp(s);
                                t = std::move(tmp);
                            }
                            h.v = t;
                            done = true;
                        }
                    }
                } else {
                    SV<J>& s = std::get<SV<J>>(src.v);
                    if (route == "copy" && K == J) {
                        SV<J> c(s);
                        h.v = c;
                        done = true;
                    } else if (route == "move" && K == J) {
                        SV<J> tmp(s);
                        SV<J> c(std::move(tmp));
                        h.v = c;
                        done = true;
                    } else if (route == "conv") {
                        if constexpr (K <= J) {
                            SV<K> c(s);
                            h.v = c;
                            done = true;
                        }
                    } else if (route == "convmove") {
                        if constexpr (K <= J) {
                            SV<J> tmp(s);
                            SV<K> c(std::move(tmp));
                            h.v = c;
                            done = true;
                        }
                    } else if (route == "cast") {
                        if constexpr (K >= J) {
                            h.v = s.template cast<SV<K>>();
                            done = true;
                        }
                    } else if (route == "assign" || route == "assignmove") {
                        if constexpr (K <= J) {
                            auto other = std::make_shared<Node<3>>();
                            tops.push_back(other);
                            other->id = g_node_static_id[K];
                            other->cls = g_node_cls[K];
                            other->oid = 0;
                            std::shared_ptr<Node<K>> ok = other;
                            SV<K> t(ok);
                            if (route == "assign") {
                                t = s;
                            } else {
                                SV<J> tmp(s);
                                t = std::move(tmp);
                            }
                            h.v = t;
                            done = true;
                        }
                    }
                }
            };
            auto for_j = [&](auto ktag) {
                try_pair(ktag, std::integral_constant<int, 0>());
                try_pair(ktag, std::integral_constant<int, 1>());
                try_pair(ktag, std::integral_constant<int, 2>());
                try_pair(ktag, std::integral_constant<int, 3>());
            };
            for_j(std::integral_constant<int, 0>());
            for_j(std::integral_constant<int, 1>());
            for_j(std::integral_constant<int, 2>());
            for_j(std::integral_constant<int, 3>());
            if (!done) {
                r.err = 9;
                return;
            }
            r.ok = true;
            r.oid = h.oid;
            r.dyn = h.dyn;
            handles[hid] = std::move(h);
        });
    }
    void vp_drop(int h) override {
        handles.erase(h);
    }
    bool vp_ids(int hid, int out[3]) override {
        auto it = handles.find(hid);
        if (it == handles.end()) {
            return false;
        }
        std::visit([&](auto& vp) {
            if constexpr (!std::is_same_v<std::decay_t<decltype(vp)>, std::monostate>) {
                out[0] = vp.get()->oid;
                out[1] = (*vp).oid;
                out[2] = vp->oid;
            }
        }, it->second.v);
        return true;
    }
    CallResult vp_call(int m, const std::vector<int>& hs) override {
        CallResult r;
        Slot* s = slot_of(m);
        if (!s || !s->do_call_vp) {
            r.o = -96;
            return r;
        }
        // convert every handle to the parameter type of the method (base class Obj)
        std::deque<virtual_ptr<Obj, P>> plain;
        std::deque<virtual_ptr<std::shared_ptr<Obj>, P>> shared;
        std::vector<const void*> args;
        int vi = 0;
        for (char ch : s->shape) {
            if (ch == 'N') {
                continue;
            }
            auto it = handles.find(hs[vi++]);
            if (it == handles.end() || it->second.shared != (ch == 'Q')) {
                r.o = -96;
                return r;
            }
            std::visit([&](auto& vp) {
                using T = std::decay_t<decltype(vp)>;
                if constexpr (std::is_same_v<T, std::monostate>) {
                } else if constexpr (std::is_same_v<typename T::box_type, typename T::element_type>) {
                    // smart pointer flavour: converts to virtual_shared_ptr<Obj, P>
                    if (ch == 'Q') {
                        shared.emplace_back(vp);
                        args.push_back(&shared.back());
                    }
                } else {
                    if (ch != 'Q') {
                        plain.emplace_back(vp);
                        args.push_back(&plain.back());
                    }
                }
            }, it->second.v);
        }
        if ((int)args.size() != s->arity) {
            r.o = -96;
            return r;
        }
        g_rec.reset();
        g_reads.clear();
        guarded(r, [&] {
            r.retval = s->do_call_vp(args.data());
            collect_recv(r);
        });
        return r;
    }
    // ---- encoded dispatch data (C13)
    struct Block {
        struct {
            std::uint16_t* slots;
            std::uint16_t* vtbls;
        } encoded;
        std::uintptr_t* vtbls;
        std::uintptr_t* dtbls;
        std::uint16_t* nexts; // one word per definition: what its next is (present in the emitted text since the repair of D12)
    };
    static bool find_size(const std::string& text, const char* key, std::size_t from, long& value, std::size_t& after) {
        auto p = text.find(key, from);
        if (p == std::string::npos) {
            return false;
        }
        p += std::strlen(key);
        char* end = nullptr;
        value = std::strtol(text.c_str() + p, &end, 10);
        after = p;
        return end != text.c_str() + p;
    }
    static std::vector<unsigned long> words(const std::string& s) {
        std::vector<unsigned long> v;
        std::string clean;
        std::istringstream ls(s);
        std::string line;
        while (std::getline(ls, line)) {
            auto c = line.find("//");
            clean += (c == std::string::npos ? line : line.substr(0, c)) + " ";
        }
        std::istringstream ss(clean);
        std::string tok;
        while (std::getline(ss, tok, ',')) {
            std::size_t b = tok.find_first_not_of(" \t");
            if (b == std::string::npos) {
                continue;
            }
            v.push_back(std::strtoul(tok.c_str() + b, nullptr, 0));
        }
        return v;
    }
    std::string encode_decode() override {
        if constexpr (!is_std) {
            return ""; // the encoder demangles type_info names: std rtti only
        } else {
            if (!last_comp) {
                return "";
            }
            std::ostringstream os;
            generator::encode_dispatch_data(*last_comp, name_, os);
            std::string text = os.str();
            if (std::getenv("DYN_DUMP_ENC")) {
                std::fprintf(stderr, "%s\n", text.c_str());
            }
            long H = -1, S = -1, E = -1, D = -1, T = -1;
            std::size_t at = 0;
            bool ok = find_size(text, "uint16_t headroom[", 0, H, at) && find_size(text, "uint16_t slots[", at, S, at) &&
                      find_size(text, "uint16_t vtbls[", at, E, at) && find_size(text, "std::uintptr_t vtbls[", at, D, at) &&
                      find_size(text, "std::uintptr_t dtbls[", at, T, at);
            std::vector<unsigned long> ws, wv, wt, wn;
            long N = 0;
            std::size_t at2 = at;
            bool has_nexts = find_size(text, "uint16_t nexts[", at, N, at2);
            auto init = text.find("yomm2_dispatch_data = {");
            if (ok && init != std::string::npos) {
                auto a = text.find("{}, {", init);
                auto b = text.find("}, {", a + 5);
                auto c = text.find("} } }, {", b + 4);
                auto d = text.find("} };", c + 8);
                if (a == std::string::npos || b == std::string::npos || c == std::string::npos || d == std::string::npos) {
                    ok = false;
                } else {
                    ws = words(text.substr(a + 5, b - a - 5));
                    wv = words(text.substr(b + 4, c - b - 4));
                    auto e = has_nexts ? text.find("}, {", c + 8) : std::string::npos;
                    if (e != std::string::npos && e < d) {
                        wt = words(text.substr(c + 8, e - c - 8));
                        wn = words(text.substr(e + 4, d - e - 4));
                    } else {
                        wt = words(text.substr(c + 8, d - c - 8));
                    }
                }
            } else {
                ok = false;
            }
            const long LIM = 1 << 22;
            bool ill = !ok || H < 0 || S < 0 || E < 0 || D < 0 || T < 0 || H > LIM || S > LIM || E > LIM || D > LIM || T > LIM ||
                       (long)ws.size() > S || (long)wv.size() > E || (long)wt.size() > T || N < 0 || N > LIM || (long)wn.size() > N;
            std::set<int> live;
            for (auto& [rr, cr] : recs) {
                live.insert(cr.c);
            }
            std::string ev1 = "\"e\":\"encoded\",\"ill\":" + std::string(ill ? "true" : "false") + ",\"H\":" + std::to_string(H) +
                              ",\"S\":" + std::to_string(S) + ",\"E\":" + std::to_string(E) + ",\"D\":" + std::to_string(D) +
                              ",\"T\":" + std::to_string(T) + ",\"ns\":" + std::to_string(ws.size()) + ",\"nv\":" +
                              std::to_string(wv.size()) + ",\"nt\":" + std::to_string(wt.size()) + ",\"classes\":" +
                              std::to_string(live.size());
            if (ill) {
                return ev1;
            }
            // lay the emitted structure out: the union (encoded words / decoded v-tables), then the dispatch tables
            std::size_t ubytes = std::max<std::size_t>(2 * (H + S + E), 8 * D);
            ubytes = (ubytes + 7) & ~std::size_t(7);
            char* ubuf = static_cast<char*>(std::calloc(ubytes ? ubytes : 8, 1));
            std::uintptr_t* dt = static_cast<std::uintptr_t*>(std::calloc(T ? T : 1, 8));
            Block* blk = new Block; // kept alive: the decoded tables live in it
            blk->encoded.slots = reinterpret_cast<std::uint16_t*>(ubuf + 2 * H);
            blk->encoded.vtbls = reinterpret_cast<std::uint16_t*>(ubuf + 2 * (H + S));
            blk->vtbls = reinterpret_cast<std::uintptr_t*>(ubuf);
            blk->dtbls = dt;
            blk->nexts = static_cast<std::uint16_t*>(std::calloc(N ? N : 1, 2));
            for (std::size_t i = 0; i < wn.size(); ++i) blk->nexts[i] = (std::uint16_t)wn[i];
            for (std::size_t i = 0; i < ws.size(); ++i) blk->encoded.slots[i] = (std::uint16_t)ws[i];
            for (std::size_t i = 0; i < wv.size(); ++i) blk->encoded.vtbls[i] = (std::uint16_t)wv[i];
            for (std::size_t i = 0; i < wt.size(); ++i) dt[i] = wt[i];
            // a process holding the same registrations in which update never ran
            for (auto& [c, cell] : static_vptr) {
                *cell = nullptr;
            }
            for (auto& sl : pool) {
                if (sl.declared) {
                    std::fill_n(sl.info->slots_strides_ptr, 2 * sl.arity - 1, 0);
                }
            }
            for (auto& [key, dr] : defs) {
                dr.next_slot = nullptr;   // a process in which update never ran has no next pointers either
            }
            std::vector<std::uintptr_t>().swap(P::dispatch_data);
            if constexpr (P::template has_facet<policy::external_vptr>) {
                P::vptrs.clear();
            }
            g_decode.clear();
            std::string res = "ok";
            try {
                yorel::yomm2::decode_dispatch_data<P>(*blk);
            } catch (const Caught& c) {
                res = c.kind == Caught::hash_search ? "hashfail" : "weird";
            } catch (const error&) {
                res = "weird";
            }
            std::string evs;
            for (auto& d : g_decode) {
                long off = d.kind == 't' ? (const char*)d.addr - (const char*)dt : (const char*)d.addr - ubuf;
                evs += (evs.empty() ? "[\"" : ",[\"") + std::string(1, d.kind) + "\"," + std::to_string(off) + "]";
            }
            g_decode.clear();
            layout.clear();
            return ev1 + "\n\"e\":\"decoded\",\"res\":\"" + res + "\",\"ev\":[" + evs + "]";
        }
    }

    // ---- generated static offsets (C12)
    static std::vector<std::size_t> numbers(const std::string& s) {
        std::vector<std::size_t> v;
        std::istringstream ss(s);
        std::string tok;
        while (std::getline(ss, tok, ',')) {
            v.push_back(std::strtoull(tok.c_str(), nullptr, 10));
        }
        return v;
    }
    std::string write_offsets() override {
        std::ostringstream os;
        generator().template write_static_offsets<P>(os);
        std::string text = os.str(), rows;
        bool ill = false;
        std::istringstream ls(text);
        std::string line;
        const std::string head = "template<> struct yorel::yomm2::detail::static_offsets<";
        while (std::getline(ls, line)) {
            if (line.empty()) {
                continue;
            }
            auto b = line.find("> {static constexpr std::size_t slots[] = {");
            if (line.compare(0, head.size(), head) != 0 || b == std::string::npos) {
                ill = true;
                continue;
            }
            std::string name = line.substr(head.size(), b - head.size());
            auto sb = line.find('{', b + 3) + 1;
            auto se = line.find('}', sb);
            std::vector<std::size_t> slots = numbers(line.substr(sb, se - sb)), strides;
            auto tb = line.find("strides[] = {");
            if (tb != std::string::npos) {
                tb += 13;
                strides = numbers(line.substr(tb, line.find('}', tb) - tb));
            }
            Slot* which = nullptr;
            for (auto& sl : pool) {
                if (sl.declared &&
                    boost::core::demangle(reinterpret_cast<const std::type_info*>(sl.info->method_type)->name()) == name) {
                    which = &sl;
                }
            }
            if (!which) {
                ill = true;
                continue;
            }
            which->gen_slots = slots;
            which->gen_strides = strides;
            auto jl = [](const std::vector<std::size_t>& v) {
                std::string s = "[";
                for (std::size_t i = 0; i < v.size(); ++i) s += (i ? "," : "") + std::to_string(v[i]);
                return s + "]";
            };
            rows += (rows.empty() ? "[" : ",[") + std::to_string(which->m) + "," + jl(slots) + "," + jl(strides) + "]";
        }
        return std::string("\"illformed\":") + (ill ? "true" : "false") + ",\"rows\":[" + rows + "]";
    }
    // load the generated numbers into the static arrays of method m; which/idx/delta perturb one number
    bool load_offsets(int m, int which, int idx, int delta, std::string& json) override {
        Slot* s = slot_of(m);
        if (!s || !s->so_slots || (int)s->gen_slots.size() != s->arity) {
            return false;
        }
        std::vector<std::size_t> sl = s->gen_slots, st = s->gen_strides;
        st.resize(s->arity - 1);
        s->so_exact = true;
        if (which == 0 && idx < (int)sl.size()) {
            sl[idx] += delta;
            s->so_exact = false;
        } else if (which == 1 && idx < (int)st.size()) {
            st[idx] += delta;
            s->so_exact = false;
        }
        std::copy(sl.begin(), sl.end(), s->so_slots);
        std::copy(st.begin(), st.end(), s->so_strides);
        s->so_loaded = true;
        auto jl = [](const std::vector<std::size_t>& v) {
            std::string x = "[";
            for (std::size_t i = 0; i < v.size(); ++i) x += (i ? "," : "") + std::to_string(v[i]);
            return x + "]";
        };
        json = "\"slots\":" + jl(sl) + ",\"strides\":" + jl(st) + ",\"exact\":" + (s->so_exact ? "true" : "false");
        return true;
    }
    // may method m be called right now?  (static-offset methods need their arrays loaded; wrong numbers
    // are only legal to try under a checked policy, which must diagnose them)
    bool callable(int m) override {
        Slot* s = slot_of(m);
        if (!s) {
            return false;
        }
        if (!s->so_slots) {
            return true;
        }
        return s->so_loaded && (s->so_exact || checked());
    }
    std::string shape_of(int m) const override {
        for (auto& s : pool) {
            if (s.allocated && s.m == m) {
                return s.shape;
            }
        }
        return "";
    }
};

template<class P>
Runner<P>* Runner<P>::self = nullptr;

} // namespace dyn

#endif
