// dyn harness driver: reads scripts, executes each in a forked child per
// policy binding, writes ndjson traces.  No oracle here.
//
// usage: dyn <script-file> <trace-file> [--list]
//
// script format (one op per line, see lib/scripts.py):
//   S <id>                      begin script
//   B <policy> [<policy>...]    one binding: slot i -> policy; several B lines = replicate
//   c <p> <r> <c> <abs> <n> b.. register class record r
//   uc <p> <r>
//   m <p> <m> <shape> <n> vp..  declare method
//   um <p> <m>
//   d <p> <m> <d> <n> vp..      add definition
//   ud <p> <m> <d>
//   h <p> <kind>                handler kind: throw | return
//   u <p>                       update
//   T <p> <m>                   outcome table through resolve()
//   CT <p> <m>                  outcome table through operator()
//   R <p> <m> <n> t..           single resolve
//   C <p> <m> <n> t..           single call
//   X <p> <m>                   next of every definition of m
//   E                           end script
#include "dyn_common.hpp"

#include <algorithm>
#include <csignal>
#include <fstream>
#include <iostream>
#include <sstream>
#include <sys/mman.h>
#include <sys/wait.h>
#include <unistd.h>

namespace dyn {

type_id g_node_static_id[kNodes] = {2, 3, 4, 5};
int g_node_cls[kNodes] = {0, 0, 0, 0};
type_id g_deferred_id[64];
Recorded g_rec;
std::vector<RawRead> g_reads;
std::vector<RawDecode> g_decode;
bool g_capture_reads = true;

static std::map<std::string, RunnerFactory>& registry() {
    static std::map<std::string, RunnerFactory> r;
    return r;
}
void register_runner(const char* name, RunnerFactory f) {
    registry()[name] = f;
}
IRunner* make_runner(const std::string& name) {
    auto it = registry().find(name);
    return it == registry().end() ? nullptr : it->second();
}
std::vector<std::string> runner_names() {
    std::vector<std::string> v;
    for (auto& kv : registry()) {
        v.push_back(kv.first);
    }
    return v;
}

Caught to_caught(const yorel::yomm2::error_type& ev) {
    using namespace yorel::yomm2;
    Caught c;
    if (auto e = std::get_if<resolution_error>(&ev)) {
        c.kind = Caught::resolution;
        c.status = (int)e->status;
        c.arity = e->arity;
        std::copy_n(e->types, 16, c.types);
    } else if (auto e = std::get_if<unknown_class_error>(&ev)) {
        c.kind = Caught::unknown_class;
        c.type = e->type;
    } else if (std::get_if<hash_search_error>(&ev)) {
        c.kind = Caught::hash_search;
    } else if (auto e = std::get_if<method_table_error>(&ev)) {
        c.kind = Caught::method_table;
        c.type = e->type;
    } else if (auto e = std::get_if<static_slot_error>(&ev)) {
        c.kind = Caught::static_slot;
        c.actual = e->actual;
        c.expected = e->expected;
    } else if (auto e = std::get_if<static_stride_error>(&ev)) {
        c.kind = Caught::static_stride;
        c.actual = e->actual;
        c.expected = e->expected;
    }
    return c;
}

// ---------------------------------------------------------------------------
// child-side trace buffer: a shared mapping, so that whatever the child wrote
// survives its death.
static char* g_buf = nullptr;
static std::size_t* g_len = nullptr;
static std::size_t g_cap = 0;

void emit(const std::string& line) {
    if (*g_len + line.size() + 1 > g_cap) {
        return;
    }
    std::memcpy(g_buf + *g_len, line.data(), line.size());
    g_buf[*g_len + line.size()] = '\n';
    *g_len += line.size() + 1;
}
void emit_flush() {
}

} // namespace dyn

using namespace dyn;

struct Op {
    std::string k;
    int p = 0;
    std::vector<int> a;
    std::string s;
};
struct Script {
    std::string id;
    std::vector<std::vector<std::string>> bindings;
    std::vector<Op> ops;
};

static std::string jlist(const std::vector<int>& v) {
    std::string s = "[";
    for (std::size_t i = 0; i < v.size(); ++i) {
        if (i) s += ",";
        s += std::to_string(v[i]);
    }
    return s + "]";
}

// ---- per-child execution state
struct Exec {
    std::vector<IRunner*> runners; // by slot
    // catalog mirror (inputs only): needed to enumerate the legal tuples
    struct CRec { int r, c; std::vector<int> bases; };
    std::vector<std::vector<CRec>> crecs;                 // per slot
    std::vector<std::map<int, std::vector<int>>> mvp;     // per slot: m -> vp
    std::vector<std::map<int, std::set<int>>> mdefs;      // per slot: m -> defs
    std::vector<bool> fresh;                              // per slot: successful update, no catalog change since
    std::vector<int> epoch;                               // per slot: number of successful updates
    std::map<std::pair<int, int>, int> hepoch;            // (slot, handle) -> epoch of creation
    std::map<std::pair<int, int>, int> node_cls;          // (slot, node) -> class it stands for
};
static Exec* g_exec = nullptr;

// pending call context for the "return" handler
static std::string g_pending_prefix;
static IRunner* g_pending_runner = nullptr;
static std::string types_json(IRunner* r, const std::vector<type_id>& types) {
    std::vector<int> v;
    for (auto t : types) v.push_back(r->class_of_id(t));
    return jlist(v);
}
static void on_error_return(const Caught& c) {
    // the handler is about to return: record what it received; the library
    // must now abort.
    std::vector<type_id> ty(c.types, c.types + (c.arity < 16 ? c.arity : 16));
    int o = c.kind == Caught::resolution ? (c.status == 1 ? -1 : -2) : -97;
    emit(g_pending_prefix + ",\"o\":" + std::to_string(o) + ",\"st\":" + std::to_string(c.status) +
         ",\"ar\":" + std::to_string(c.arity) + ",\"ty\":" + types_json(g_pending_runner, ty) +
         ",\"recv\":[],\"then\":\"aborted\"}");
}

static std::set<int> closure_up(const std::vector<Exec::CRec>& recs, int c) {
    std::set<int> s{c};
    bool grew = true;
    while (grew) {
        grew = false;
        for (auto& r : recs) {
            if (s.count(r.c)) {
                for (int b : r.bases) {
                    if (s.insert(b).second) grew = true;
                }
            }
        }
    }
    return s;
}

static void enumerate_tuples(Exec& ex, int p, int m, std::vector<std::vector<int>>& out) {
    std::set<int> classes;
    for (auto& r : ex.crecs[p]) classes.insert(r.c);
    const auto& vp = ex.mvp[p][m];
    std::vector<std::vector<int>> cov(vp.size());
    for (std::size_t i = 0; i < vp.size(); ++i) {
        for (int c : classes) {
            if (closure_up(ex.crecs[p], c).count(vp[i])) cov[i].push_back(c);
        }
    }
    std::vector<int> t(vp.size());
    std::vector<std::size_t> idx(vp.size(), 0);
    for (auto& cv : cov) if (cv.empty()) return;
    while (true) {
        for (std::size_t i = 0; i < vp.size(); ++i) t[i] = cov[i][idx[i]];
        out.push_back(t);
        std::size_t k = 0;
        while (k < vp.size() && ++idx[k] == cov[k].size()) idx[k++] = 0;
        if (k == vp.size()) break;
    }
}

static std::string call_fields(IRunner* r, const CallResult& cr) {
    std::string s = ",\"o\":" + std::to_string(cr.o);
    if (cr.o >= 0) {
        s += ",\"recv\":" + jlist(cr.recv) + ",\"nv\":" + (cr.nonvirt_ok ? "true" : "false") +
             ",\"st\":0,\"ar\":0,\"ty\":[],\"then\":\"returned\"";
    } else if (cr.o == -1 || cr.o == -2) {
        s += ",\"recv\":[],\"st\":" + std::to_string(cr.status) + ",\"ar\":" + std::to_string(cr.arity) +
             ",\"ty\":" + types_json(r, cr.types) + ",\"then\":\"thrown\"";
    } else if (cr.o == -3) {
        s += ",\"recv\":[],\"st\":0,\"ar\":0,\"ty\":[],\"then\":\"unknown\",\"c\":" +
             std::to_string(r->class_of_id(cr.unknown_id)) + ",\"chk\":" + (r->checked() ? "true" : "false") + ",\"reads\":[";
        bool first = true;
        for (auto& x : cr.reads) {
            s += std::string(first ? "[\"" : ",[\"") + std::string(1, x.first) + "\"," + std::to_string(x.second) + "]";
            first = false;
        }
        s += "]";
    } else {
        s += ",\"recv\":[],\"st\":0,\"ar\":0,\"ty\":[],\"then\":\"weird\"";
    }
    return s;
}

static void run_ops(const Script& sc, const std::vector<std::string>& binding) {
    Exec ex;
    g_exec = &ex;
    std::size_t np = binding.size();
    ex.crecs.resize(np);
    ex.mvp.resize(np);
    ex.mdefs.resize(np);
    ex.fresh.assign(np, false);
    ex.epoch.assign(np, 0);
    for (auto& b : binding) {
        IRunner* r = make_runner(b);
        if (!r) {
            emit("{\"e\":\"badpolicy\",\"name\":\"" + b + "\"}");
            return;
        }
        r->on_error_return = &on_error_return;
        r->begin();
        ex.runners.push_back(r);
    }
    std::vector<Op> ops;
    for (const Op& op : sc.ops) {
        ops.push_back(op);
    }
    for (std::size_t oi = 0; oi < ops.size(); ++oi) {
        const Op op = ops[oi];
        if (op.k == "A" && op.p >= 0 && op.p < (int)np && ex.fresh[op.p]) {
            // observe everything: outcome table and next slots of every declared method
            std::vector<Op> exp;
            for (auto& kv : ex.mvp[op.p]) {
                Op t;
                t.k = "T";
                t.p = op.p;
                t.a = {kv.first};
                exp.push_back(t);
                t.k = "X";
                exp.push_back(t);
            }
            ops.insert(ops.begin() + oi + 1, exp.begin(), exp.end());
            continue;
        }
        if (op.p < 0 || op.p >= (int)np) {
            emit("{\"e\":\"badop\"}");
            continue;
        }
        IRunner* r = ex.runners[op.p];
        std::string P = "\"p\":" + std::to_string(op.p);
        const bool observing = op.k == "T" || op.k == "CT" || op.k == "R" || op.k == "C" || op.k == "X" || op.k == "SO" || op.k == "SL" || op.k == "EN" ||
                               op.k == "L" || op.k == "RT" || op.k == "A" || op.k == "VN" || op.k == "VD" ||
                               op.k == "VG" || op.k == "VC";
        // an indirect handle for the exact static type of a registered class needs no look-up: it may be created at any time
        bool early_handle = false;
        if (op.k == "VN" && !ex.fresh[op.p] && r->indirect()) {
            auto nc = ex.node_cls.find({op.p, op.a[1]});
            const bool exact = nc != ex.node_cls.end() && nc->second == op.a[2] &&
                               (op.s == "final" || op.s == "sh_final" || op.s == "mk" || op.s == "ref" || op.s == "sh_lv" || op.s == "sh_rv");
            bool registered = false;
            for (auto& cr : ex.crecs[op.p]) {
                registered = registered || cr.c == op.a[2];
            }
            early_handle = exact && registered;
        }
        if (observing && !ex.fresh[op.p] && !early_handle) {
            // legal use only: nothing is observed between a catalog change (or a failed update) and the next update
            emit("{\"e\":\"skip\"," + P + "}");
            continue;
        }
        if ((op.k == "T" || op.k == "CT" || op.k == "RT" || op.k == "R" || op.k == "C" || op.k == "X") && !r->callable(op.a[0])) {
            emit("{\"e\":\"sskip\"," + P + ",\"m\":" + std::to_string(op.a[0]) + "}");
            continue;
        }
        if (!observing && op.k != "u" && op.k != "h" && op.k != "N" && op.k != "VX") {
            ex.fresh[op.p] = false;
        }
        if (op.k == "c") {
            int rr = op.a[0], c = op.a[1], abs = op.a[2], n = op.a[3];
            std::vector<int> bases(op.a.begin() + 4, op.a.begin() + 4 + n);
            r->add_class(rr, c, bases, abs != 0);
            ex.crecs[op.p].push_back({rr, c, bases});
            emit("{\"e\":\"class\"," + P + ",\"r\":" + std::to_string(rr) + ",\"c\":" + std::to_string(c) +
                 ",\"bases\":" + jlist(bases) + ",\"abs\":" + (abs ? "true" : "false") + "}");
        } else if (op.k == "uc") {
            r->remove_class(op.a[0]);
            auto& v = ex.crecs[op.p];
            v.erase(std::remove_if(v.begin(), v.end(), [&](auto& x) { return x.r == op.a[0]; }), v.end());
            emit("{\"e\":\"unclass\"," + P + ",\"r\":" + std::to_string(op.a[0]) + "}");
        } else if (op.k == "m") {
            int m = op.a[0], n = op.a[1];
            std::vector<int> vp(op.a.begin() + 2, op.a.begin() + 2 + n);
            if (!r->add_method(m, op.s, vp)) {
                emit("{\"e\":\"skipped\",\"why\":\"no pool slot for shape " + op.s + "\"}");
                continue;
            }
            ex.mvp[op.p][m] = vp;
            emit("{\"e\":\"method\"," + P + ",\"m\":" + std::to_string(m) + ",\"shape\":\"" + op.s +
                 "\",\"vp\":" + jlist(vp) + "}");
        } else if (op.k == "um") {
            r->remove_method(op.a[0]);
            ex.mvp[op.p].erase(op.a[0]);
            emit("{\"e\":\"unmethod\"," + P + ",\"m\":" + std::to_string(op.a[0]) + "}");
        } else if (op.k == "d") {
            int m = op.a[0], d = op.a[1], n = op.a[2];
            std::vector<int> vp(op.a.begin() + 3, op.a.begin() + 3 + n);
            if (!r->add_def(m, d, vp)) {
                emit("{\"e\":\"skipped\",\"why\":\"cannot add definition\"}");
                continue;
            }
            ex.mdefs[op.p][m].insert(d);
            emit("{\"e\":\"def\"," + P + ",\"m\":" + std::to_string(m) + ",\"d\":" + std::to_string(d) +
                 ",\"vp\":" + jlist(vp) + "}");
        } else if (op.k == "ud") {
            r->remove_def(op.a[0], op.a[1]);
            ex.mdefs[op.p][op.a[0]].erase(op.a[1]);
            emit("{\"e\":\"undef\"," + P + ",\"m\":" + std::to_string(op.a[0]) + ",\"d\":" +
                 std::to_string(op.a[1]) + "}");
        } else if (op.k == "h") {
            r->set_handler(op.s);
            emit("{\"e\":\"handler\"," + P + ",\"kind\":\"" + op.s + "\"}");
        } else if (op.k == "u") {
            UpdateResult ur = r->update();
            std::string s = "{\"e\":\"update\"," + P;
            ex.fresh[op.p] = ur.res == UpdateResult::ok;
            if (ur.res == UpdateResult::ok) ++ex.epoch[op.p];
            if (ur.res == UpdateResult::ok) {
                s += ",\"res\":\"ok\",\"c\":0,\"rep\":{\"cells\":" + std::to_string(ur.rep.cells) +
                     ",\"concrete_cells\":" + std::to_string(ur.rep.concrete_cells) +
                     ",\"not_implemented\":" + std::to_string(ur.rep.not_implemented) +
                     ",\"concrete_not_implemented\":" + std::to_string(ur.rep.concrete_not_implemented) +
                     ",\"ambiguous\":" + std::to_string(ur.rep.ambiguous) +
                     ",\"concrete_ambiguous\":" + std::to_string(ur.rep.concrete_ambiguous) +
                     ",\"built\":" + std::to_string(ur.rep.built) + "}";
            } else if (ur.res == UpdateResult::unknown) {
                s += ",\"res\":\"unknown\",\"c\":" + std::to_string(r->class_of_id(ur.unknown_id)) + ",\"rep\":{}";
            } else if (ur.res == UpdateResult::hashfail) {
                s += std::string(",\"res\":\"hashfail\",\"c\":0,\"rep\":{},\"hashed\":") + (r->hashed() ? "true" : "false");
            } else {
                s += ",\"res\":\"weird\",\"c\":0,\"rep\":{}";
            }
            emit(s + ur.extra + "}");
        } else if (op.k == "T" || op.k == "CT") {
            int m = op.a[0];
            bool viacall = op.k == "CT";
            if (!ex.mvp[op.p].count(m)) {
                emit("{\"e\":\"skipped\",\"why\":\"table of undeclared method\"}");
                continue;
            }
            std::vector<std::vector<int>> tuples;
            enumerate_tuples(ex, op.p, m, tuples);
            std::string rows;
            std::set<std::string> seen;
            int na = r->aliases();
            for (auto& t : tuples) {
                for (int a = 0; a < na; ++a) {
                    std::vector<Obj*> objs;
                    for (std::size_t i = 0; i < t.size(); ++i) objs.push_back(r->make_obj(t[i], a + (int)i));
                    CallResult cr = r->call(m, objs, viacall ? Route::call : Route::resolve);
                    std::string row = "[" + jlist(t) + "," + std::to_string(cr.o);
                    if (viacall) {
                        if (cr.o >= 0) {
                            row += "," + jlist(cr.recv);
                            if (!cr.nonvirt_ok) row += ",\"nonvirtual argument altered\"";
                        } else if (cr.o == -1 || cr.o == -2) {
                            row += ",[" + std::to_string(cr.status) + "," + std::to_string(cr.arity) + "," +
                                   types_json(r, cr.types) + "]";
                        } else {
                            row += ",\"weird\"";
                        }
                    }
                    row += "]";
                    if (seen.insert(row).second) {
                        if (!rows.empty()) rows += ",";
                        rows += row;
                    }
                }
            }
            emit(std::string("{\"e\":\"") + (viacall ? "ctable" : "table") + "\"," + P + ",\"m\":" +
                 std::to_string(m) + ",\"shape\":\"" + r->shape_of(m) + "\",\"rows\":[" + rows + "]}");
        } else if (op.k == "R" || op.k == "C") {
            int m = op.a[0], n = op.a[1];
            std::vector<int> t(op.a.begin() + 2, op.a.begin() + 2 + n);
            std::vector<Obj*> objs;
            for (int c : t) objs.push_back(r->make_obj(c, 0));
            bool viacall = op.k == "C";
            g_pending_runner = r;
            g_pending_prefix = std::string("{\"e\":\"call\",") + P + ",\"m\":" + std::to_string(m) +
                               ",\"t\":" + jlist(t);
            CallResult cr = r->call(m, objs, viacall ? Route::call : Route::resolve);
            if (viacall) {
                emit(g_pending_prefix + call_fields(r, cr) + "}");
            } else {
                emit(std::string("{\"e\":\"resolve\",") + P + ",\"m\":" + std::to_string(m) + ",\"t\":" +
                     jlist(t) + ",\"o\":" + std::to_string(cr.o) + "}");
            }
        } else if (op.k == "EN") {
            std::string evs = r->encode_decode();
            if (evs.empty()) {
                emit("{\"e\":\"skip\"," + P + ",\"why\":\"encode not supported by this policy\"}");
                continue;
            }
            std::size_t pos = 0;
            while (pos < evs.size()) {
                auto nl = evs.find('\n', pos);
                if (nl == std::string::npos) nl = evs.size();
                std::string one = evs.substr(pos, nl - pos);
                if (!one.empty()) emit("{" + one + "," + P + "}");
                pos = nl + 1;
            }
        } else if (op.k == "SO") {
            emit("{\"e\":\"offsets\"," + P + "," + r->write_offsets() + "}");
        } else if (op.k == "SL") {
            // SL m which idx delta   (which = -1: exactly what the generator wrote)
            std::string js;
            if (op.a[1] >= 0 && !r->checked()) {
                continue; // offsets other than the generated ones are only tried under a checked policy
            }
            if (!r->load_offsets(op.a[0], op.a[1], op.a[2], op.a[3], js)) {
                emit("{\"e\":\"skip\"," + P + ",\"why\":\"no generated offsets for this method\"}");
                continue;
            }
            emit("{\"e\":\"sload\"," + P + ",\"m\":" + std::to_string(op.a[0]) + "," + js + ",\"chk\":" +
                 (r->checked() ? "true" : "false") + "}");
        } else if (op.k == "N") {
            bool ok = r->map_node(op.a[0], op.a[1]);
            if (ok) {
                ex.node_cls[{op.p, op.a[0]}] = op.a[1];
            }
            emit("{\"e\":\"node\"," + P + ",\"k\":" + std::to_string(op.a[0]) + ",\"c\":" + std::to_string(op.a[1]) +
                 ",\"ok\":" + (ok ? "true" : "false") + "}");
        } else if (op.k == "VN" || op.k == "VD") {
            // VN h k c  (route in op.s) | VD h from k (route in op.s)
            IRunner::VpResult vr;
            int h = op.a[0];
            std::string ev;
            if (op.k == "VN") {
                vr = r->vp_make(h, op.a[1], op.s, op.a[2]);
                // k: the node that is the static type of the argument (one above the handle's node for the "up" routes)
                const int argnode = (op.s == "refup" || op.s == "sh_up") ? op.a[1] + 1 : op.a[1];
                ev = "{\"e\":\"vptr\"," + P + ",\"h\":" + std::to_string(h) + ",\"k\":" + std::to_string(argnode) +
                     ",\"route\":\"" + op.s + "\",\"dyn\":" + std::to_string(op.a[2]);
            } else {
                // a stale direct handle must not be touched
                auto he = ex.hepoch.find({op.p, op.a[1]});
                if (he == ex.hepoch.end() || (!r->indirect() && he->second != ex.epoch[op.p])) {
                    emit("{\"e\":\"vskip\"," + P + ",\"hs\":[" + std::to_string(op.a[1]) + "]}");
                    continue;
                }
                vr = r->vp_derive(h, op.a[1], op.s, op.a[2]);
                ev = "{\"e\":\"vderive\"," + P + ",\"h\":" + std::to_string(h) + ",\"from\":" + std::to_string(op.a[1]) +
                     ",\"k\":" + std::to_string(op.a[2]) + ",\"route\":\"" + op.s + "\",\"dyn\":" + std::to_string(vr.dyn);
            }
            const char* res = vr.ok ? "ok" : vr.err == 1 ? "unknown" : vr.err == 2 ? "mtable" : vr.err == 9 ? "unsupported" : "weird";
            if (vr.ok) {
                ex.hepoch[{op.p, h}] = op.k == "VN" ? ex.epoch[op.p] : ex.hepoch[{op.p, op.a[1]}];
            }
            emit(ev + ",\"oid\":" + std::to_string(vr.oid) + ",\"ind\":" + (r->indirect() ? "true" : "false") +
                 ",\"chk\":" + (r->checked() ? "true" : "false") + ",\"res\":\"" + res + "\",\"c\":" +
                 std::to_string(vr.err_cls) + "}");
        } else if (op.k == "VX") {
            if (!ex.hepoch.count({op.p, op.a[0]})) {
                emit("{\"e\":\"vskip\"," + P + ",\"hs\":[" + std::to_string(op.a[0]) + "]}");
                continue;
            }
            r->vp_drop(op.a[0]);
            ex.hepoch.erase({op.p, op.a[0]});
            emit("{\"e\":\"vdrop\"," + P + ",\"h\":" + std::to_string(op.a[0]) + "}");
        } else if (op.k == "VG") {
            auto he = ex.hepoch.find({op.p, op.a[0]});
            if (he == ex.hepoch.end()) {
                emit("{\"e\":\"vskip\"," + P + ",\"hs\":[" + std::to_string(op.a[0]) + "]}");
                continue;
            }
            int ids[3] = {-1, -1, -1};
            r->vp_ids(op.a[0], ids);
            emit("{\"e\":\"vget\"," + P + ",\"h\":" + std::to_string(op.a[0]) + ",\"oids\":[" + std::to_string(ids[0]) + "," +
                 std::to_string(ids[1]) + "," + std::to_string(ids[2]) + "]}");
        } else if (op.k == "VC") {
            int m = op.a[0], n = op.a[1];
            std::vector<int> hs(op.a.begin() + 2, op.a.begin() + 2 + n);
            bool stale = false;
            for (int h : hs) {
                auto he = ex.hepoch.find({op.p, h});
                if (he == ex.hepoch.end() || (!r->indirect() && he->second != ex.epoch[op.p])) stale = true;
            }
            if (stale) {
                // a direct virtual_ptr is only valid until the next update: not used
                emit("{\"e\":\"vskip\"," + P + ",\"hs\":" + jlist(hs) + "}");
                continue;
            }
            CallResult cr = r->vp_call(m, hs);
            emit("{\"e\":\"vcall\"," + P + ",\"m\":" + std::to_string(m) + ",\"hs\":" + jlist(hs) + ",\"o\":" +
                 std::to_string(cr.o) + ",\"recv\":" + jlist(cr.recv_oid) + "}");
        } else if (op.k == "L") {
            emit("{\"e\":\"layout\"," + P + "," + r->layout_json() + "}");
        } else if (op.k == "RT") {
            int m = op.a[0];
            if (!ex.mvp[op.p].count(m)) {
                emit("{\"e\":\"skipped\",\"why\":\"reads of undeclared method\"}");
                continue;
            }
            std::vector<std::vector<int>> tuples;
            enumerate_tuples(ex, op.p, m, tuples);
            std::string rows;
            for (auto& t : tuples) {
                std::vector<Obj*> objs;
                for (std::size_t i = 0; i < t.size(); ++i) objs.push_back(r->make_obj(t[i], (int)i));
                CallResult cr = r->call(m, objs, Route::resolve);
                std::string rd;
                for (auto& x : cr.reads) {
                    rd += (rd.empty() ? "[\"" : ",[\"") + std::string(1, x.first) + "\"," + std::to_string(x.second) + "]";
                }
                if (!rows.empty()) rows += ",";
                rows += "[" + jlist(t) + ",[" + rd + "]]";
            }
            emit("{\"e\":\"reads\"," + P + ",\"m\":" + std::to_string(m) + ",\"rows\":[" + rows + "]}");
        } else if (op.k == "X") {
            int m = op.a[0];
            std::string rows;
            for (int d : ex.mdefs[op.p][m]) {
                int oc, optr;
                r->next_of(m, d, oc, optr);
                if (!rows.empty()) rows += ",";
                rows += "[" + std::to_string(d) + "," + std::to_string(oc) + "," + std::to_string(optr) + "]";
            }
            emit("{\"e\":\"next\"," + P + ",\"m\":" + std::to_string(m) + ",\"rows\":[" + rows + "]}");
        } else {
            emit("{\"e\":\"badop\",\"k\":\"" + op.k + "\"}");
        }
    }
}

static bool parse_scripts(std::istream& in, std::vector<Script>& out) {
    std::string line;
    Script cur;
    bool open = false;
    while (std::getline(in, line)) {
        if (line.empty() || line[0] == '#') continue;
        std::istringstream ss(line);
        std::string k;
        ss >> k;
        if (k == "S") {
            cur = Script();
            ss >> cur.id;
            open = true;
        } else if (k == "B") {
            std::vector<std::string> b;
            std::string n;
            while (ss >> n) b.push_back(n);
            cur.bindings.push_back(b);
        } else if (k == "E") {
            if (open) out.push_back(cur);
            open = false;
        } else {
            Op op;
            op.k = k;
            ss >> op.p;
            if (k == "m") {
                int m;
                ss >> m >> op.s;
                op.a.push_back(m);
            } else if (k == "h" || k == "VN" || k == "VD") {
                ss >> op.s;
            }
            int v;
            while (ss >> v) op.a.push_back(v);
            cur.ops.push_back(op);
        }
    }
    return true;
}

int main(int argc, char** argv) {
    if (argc >= 2 && std::string(argv[1]) == "--list") {
        for (auto& n : runner_names()) std::cout << n << "\n";
        return 0;
    }
    if (argc < 3) {
        std::cerr << "usage: dyn <script-file> <trace-file>\n";
        return 2;
    }
    std::ifstream in(argv[1]);
    if (!in) {
        std::cerr << "cannot read " << argv[1] << "\n";
        return 2;
    }
    std::vector<Script> scripts;
    parse_scripts(in, scripts);
    FILE* out = std::fopen(argv[2], "w");
    if (!out) {
        std::cerr << "cannot write " << argv[2] << "\n";
        return 2;
    }
    g_cap = 8u << 20;
    void* mem = mmap(nullptr, g_cap + 64, PROT_READ | PROT_WRITE, MAP_SHARED | MAP_ANONYMOUS, -1, 0);
    g_len = reinterpret_cast<std::size_t*>(mem);
    g_buf = reinterpret_cast<char*>(mem) + 64;

    for (auto& sc : scripts) {
        // one child per binding; identical traces are merged
        std::vector<std::pair<std::string, std::vector<std::string>>> results; // trace text -> bindings
        for (auto& b : sc.bindings) {
            *g_len = 0;
            std::fflush(out);
            pid_t pid = fork();
            if (pid == 0) {
                alarm(20);
                run_ops(sc, b);
                _exit(0);
            }
            int status = 0;
            waitpid(pid, &status, 0);
            std::string text(g_buf, *g_len);
            if (WIFSIGNALED(status)) {
                text += "{\"e\":\"died\",\"sig\":" + std::to_string(WTERMSIG(status)) + "}\n";
            } else if (WEXITSTATUS(status) != 0) {
                text += "{\"e\":\"died\",\"sig\":-" + std::to_string(WEXITSTATUS(status)) + "}\n";
            }
            text += "{\"e\":\"end\"}\n";
            std::string bname;
            for (auto& n : b) bname += (bname.empty() ? "" : "+") + n;
            bool merged = false;
            for (auto& r : results) {
                if (r.first == text) {
                    r.second.push_back(bname);
                    merged = true;
                    break;
                }
            }
            if (!merged) results.push_back({text, {bname}});
        }
        for (auto& r : results) {
            std::string bl;
            for (auto& n : r.second) bl += (bl.empty() ? "\"" : ",\"") + n + "\"";
            std::fprintf(out, "{\"e\":\"reset\",\"script\":\"%s\",\"bindings\":[%s]}\n", sc.id.c_str(), bl.c_str());
            std::fwrite(r.first.data(), 1, r.first.size(), out);
        }
    }
    std::fclose(out);
    return 0;
}

namespace verif_hooks {
std::size_t hash_budget = 0;
struct Collector : Sink {
    void read(const char* kind, const void* base, std::size_t index) override {
        if (dyn::g_capture_reads) {
            dyn::g_reads.push_back({kind[0], static_cast<const std::uintptr_t*>(base) + index});
        }
    }
    void write(const char*, const void*, std::size_t, std::size_t, std::size_t) override {
    }
    void decode(const char* kind, const void* a, const void*) override {
        dyn::g_decode.push_back({kind[0], a});
    }
};
static Collector collector;
Sink* sink = &collector;
} // namespace verif_hooks
