// dyn harness: common declarations.
// The harness executes scripts against the real yomm2 templates and records
// what it observed.  It contains NO oracle: every verdict is made by TLC on
// the recorded trace (spec/TraceYomm2.tla etc.).
#ifndef VERIF_DYN_COMMON_HPP
#define VERIF_DYN_COMMON_HPP

#include <yorel/yomm2/core.hpp>

#include <cstdint>
#include <cstdio>
#include <cstring>
#include <deque>
#include <map>
#include <memory>
#include <set>
#include <string>
#include <typeinfo>
#include <vector>

namespace dyn {

using yorel::yomm2::type_id;

// ---------------------------------------------------------------------------
// Objects.  The dynamic type id of an object is a run-time value (custom
// RTTI) -- or its real type_info (std RTTI pool, see StdObj below).
struct Obj {
    type_id id = 0; // dynamic type id under custom rtti
    int cls = 0;    // spec-level class number (for recording only)
    int oid = 0;    // object identity (for recording only)
    virtual ~Obj() {
    }
};

// C++ chain Node<0> <- Node<1> <- ... whose *static* ids are run-time values:
// lets virtual_ptr take its "static type == dynamic type" shortcut for
// arbitrary spec classes.
constexpr int kNodes = 4;
extern type_id g_node_static_id[kNodes];
extern int g_node_cls[kNodes];
template<int I>
struct Node : Node<I - 1> {
    Node() {
        this->id = g_node_static_id[I];
        this->cls = g_node_cls[I];
    }
};
template<>
struct Node<0> : Obj {
    Node() {
        this->id = g_node_static_id[0];
        this->cls = g_node_cls[0];
    }
};

template<class T>
struct node_index {
    static constexpr int value = -1;
};
template<int I>
struct node_index<Node<I>> {
    static constexpr int value = I;
};

// std-RTTI pool: real polymorphic classes whose type_info addresses are ids.
constexpr int kStdPool = 24;
template<int I>
struct StdObj : Obj {};

// ids reported for things that are not Obj (non-virtual arguments, ...)
constexpr type_id kNotAnObject = 0xBAD0000;

// ---------------------------------------------------------------------------
// what a recorder definition / an error handler saw
struct Recorded {
    int def = -100;        // definition id that ran
    int nrecv = 0;         // virtual arguments received
    int recv_cls[8];       // their spec classes
    int recv_oid[8];       // their identities
    bool nonvirt_ok = true; // non-virtual arguments arrived unchanged
    void reset() {
        def = -100;
        nrecv = 0;
        nonvirt_ok = true;
    }
};
extern Recorded g_rec;

// exception thrown by the harness's error handlers
struct Caught {
    enum Kind { resolution, unknown_class, hash_search, method_table, static_slot, static_stride, other } kind = other;
    int status = 0;
    std::size_t arity = 0;
    type_id types[16] = {};
    type_id type = 0; // unknown_class / method_table
    int actual = 0, expected = 0;
};

Caught to_caught(const yorel::yomm2::error_type& ev);

// ---------------------------------------------------------------------------
struct Report {
    std::size_t cells = 0, concrete_cells = 0, not_implemented = 0,
                concrete_not_implemented = 0, ambiguous = 0,
                concrete_ambiguous = 0, built = 0;
};

struct UpdateResult {
    enum { ok, unknown, hashfail, other } res = ok;
    type_id unknown_id = 0;
    Report rep;
    // slot map for C04: per method, slots and strides as installed
    std::string extra; // optional JSON fragment (",\"k\":v...")
};

struct CallResult {
    int o = -100;                // >= 0 ran def; -1 no definition; -2 ambiguous; -3 unknown class reported
    std::vector<int> recv;       // classes of received objects (o >= 0)
    std::vector<int> recv_oid;
    bool nonvirt_ok = true;
    int status = 0;              // error record
    std::size_t arity = 0;
    std::vector<type_id> types;
    type_id unknown_id = 0;
    int retval = -100;
    std::vector<std::pair<char, long>> reads; // hook H2: kind, offset (words) from the start of dispatch_data
};

// reads captured by hook H2 (raw addresses)
struct RawRead {
    char kind;
    const std::uintptr_t* addr;
};
extern std::vector<RawRead> g_reads;
extern bool g_capture_reads;
// decoder events captured by hook H4 (raw addresses)
struct RawDecode {
    char kind; // f fetch of a 16-bit word, s store of a v-table cell, t store of a dispatch-table cell
    const void* addr;
};
extern std::vector<RawDecode> g_decode;

enum class Route { resolve, call };

struct IRunner {
    virtual ~IRunner() {
    }
    virtual const char* name() const = 0;
    virtual bool hashed() const = 0;
    virtual bool indirect() const = 0;
    virtual bool checked() const = 0;
    virtual bool deferred() const = 0;
    virtual int aliases() const = 0; // ids per class (projected rtti)
    virtual void begin() = 0;        // called in the child before the first op
    // catalog operations
    virtual void add_class(int r, int c, const std::vector<int>& bases, bool abs) = 0;
    virtual void remove_class(int r) = 0;
    virtual bool add_method(int m, const std::string& shape, const std::vector<int>& vp) = 0;
    virtual void remove_method(int m) = 0;
    virtual bool add_def(int m, int d, const std::vector<int>& vp) = 0;
    virtual void remove_def(int m, int d) = 0;
    virtual void set_handler(const std::string& kind) = 0;
    virtual UpdateResult update() = 0;
    // calls; objs are created by the runner (id scheme is policy specific)
    virtual Obj* make_obj(int c, int alias_hint) = 0;
    virtual CallResult call(int m, const std::vector<Obj*>& objs, Route route) = 0;
    // next: for definition d of m: outcome of calling through its next slot
    // with objects of exactly d's classes, and outcome by pointer comparison
    virtual void next_of(int m, int d, int& o_called, int& o_ptr) = 0;
    virtual int class_of_id(type_id id) const = 0; // -1 if not an id of the universe
    virtual std::string shape_of(int m) const = 0;
    virtual std::string layout_json() const = 0; // as of the last successful update
    // ---- generated static offsets (C12)
    virtual std::string write_offsets() = 0;   // runs the real generator, returns JSON fields
    virtual bool load_offsets(int m, int which, int idx, int delta, std::string& json) = 0;
    virtual bool callable(int m) = 0;
    // ---- encoded dispatch data (C13): encode the last update's result with the real generator, lay the
    // emitted data out, forget the installed tables and run the real decoder on it
    virtual std::string encode_decode() = 0; // returns one or two complete JSON events (newline separated), or ""
    // ---- virtual_ptr handles (C09 / C15)
    // node k of the C++ chain Node<0..3> stands for spec class c (its static id); before registering c
    virtual bool map_node(int k, int c) = 0;
    struct VpResult {
        bool ok = false;          // handle created
        int err = 0;              // 0 none, 1 unknown class, 2 method table error, 9 unsupported
        int err_cls = -1;
        int oid = 0;
        int dyn = 0;
    };
    // route: ref | final | sh_lv | sh_rv | sh_base | sh_final | mk ; pointee of dynamic class c
    virtual VpResult vp_make(int h, int k, const std::string& route, int c) = 0;
    // route: copy | move | conv (to node k) | cast (to node k)
    virtual VpResult vp_derive(int h, int from, const std::string& route, int k) = 0;
    virtual void vp_drop(int h) = 0;
    virtual bool vp_ids(int h, int out[3]) = 0;  // pointee identity through get(), operator* and operator->
    virtual CallResult vp_call(int m, const std::vector<int>& hs) = 0;
    // fired by the "return"-kind handler before it returns
    void (*on_error_return)(const Caught&) = nullptr;
};

using RunnerFactory = IRunner* (*)();
void register_runner(const char* name, RunnerFactory f);
IRunner* make_runner(const std::string& name);
std::vector<std::string> runner_names();

// trace output (child side)
void emit(const std::string& json_line);
void emit_flush();

} // namespace dyn

#endif
