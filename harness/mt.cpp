// C16 harness: N threads dispatch concurrently (resolve, operator(), virtual_ptr create / copy / use) on
// registries of three policies while another thread keeps updating a fourth policy.  Built with
// -fsanitize=thread.  Records what every thread observed; TLC validates every outcome against the
// sequential specification (TraceYomm2.tla), the driver turns ThreadSanitizer reports into events.
//
// script: the dyn script subset  c / m / d / u  (policies 0..2: callers, 3..5: candidates for the concurrently updated one (MT line))
//         MT <threads> <iterations> <seed>
#include <yorel/yomm2/core.hpp>

#include <algorithm>
#include <atomic>
#include <cstdio>
#include <cstdlib>
#include <cstring>
#include <deque>
#include <fstream>
#include <iostream>
#include <map>
#include <random>
#include <set>
#include <sstream>
#include <string>
#include <thread>
#include <vector>

using namespace yorel::yomm2;

namespace verif_hooks {
std::size_t hash_budget = 0;
Sink* sink = nullptr;
} // namespace verif_hooks

struct Obj {
    type_id id;
    int cls;
    virtual ~Obj() {}
};
struct id_rtti : policy::rtti {
    template<typename T> static type_id static_type() { return 1; }
    template<typename T> static type_id dynamic_type(const T& o) {
        if constexpr (std::is_base_of_v<Obj, T>) return o.id; else return 2;
    }
    template<class Stream> static void type_name(type_id t, Stream& s) { s << "id#" << t; }
    template<typename D, typename B> static D dynamic_cast_ref(B&& obj) { return dynamic_cast<D>(obj); }
};
namespace pol {
using namespace policy;
struct p0 : basic_policy<p0, id_rtti, fast_perfect_hash<p0>, vptr_vector<p0>, throw_error> {};
struct p1 : basic_policy<p1, id_rtti, checked_perfect_hash<p1>, vptr_vector<p1>, basic_indirect_vptr<p1>, throw_error> {};
struct p2 : basic_policy<p2, id_rtti, vptr_map<p2>, throw_error> {};
struct p3 : basic_policy<p3, id_rtti, fast_perfect_hash<p3>, vptr_vector<p3>, throw_error> {};
// further choices for the concurrently updated policy: each facet implementation of a callers' policy also occurs in an updated one
struct p4 : basic_policy<p4, id_rtti, vptr_map<p4>, throw_error> {};
struct p5 : basic_policy<p5, id_rtti, checked_perfect_hash<p5>, vptr_vector<p5>, basic_indirect_vptr<p5>, throw_error> {};
} // namespace pol

constexpr int MAXD = 8;
constexpr int NPOL = 6; // 0..2 callers, 3..5 candidates for the concurrently updated policy
template<int K> struct Key {};

struct Rec {
    int p, m;
    std::vector<int> t;
    char route; // r resolve, c call, v call through virtual_ptr
    int o;
};

struct IReg {
    virtual ~IReg() {}
    virtual void add_class(int c, const std::vector<int>& bases) = 0;
    virtual bool add_method(int m, const std::string& shape, const std::vector<int>& vp) = 0;
    virtual void add_def(int m, int d, const std::vector<int>& vp) = 0;
    virtual void remove_def(int m, int d) = 0;
    virtual bool update() = 0;
    virtual int run(int m, Obj* const* o, char route) = 0; // thread-safe
    virtual unsigned long checksum() = 0;
    // address ranges [lo, hi) of the storage this policy's dispatch path and update use, by kind (ConcurrencyPaths.tla)
    struct Range { const char* kind; std::uintptr_t lo, hi; };
    virtual void footprint(std::vector<Range>& out) = 0;
};

template<class P>
struct Reg : IReg {
    template<int K> static int rec1(Obj&) { return K; }
    template<int K> static int rec2(Obj&, Obj&) { return K; }
    template<int K> static int recp(virtual_ptr<Obj, P>, Obj&) { return K; }
    using M1a = method<Key<1>, int(virtual_<Obj&>), P>;
    using M1b = method<Key<2>, int(virtual_<Obj&>), P>;
    using M2a = method<Key<3>, int(virtual_<Obj&>, virtual_<Obj&>), P>;
    using M2p = method<Key<4>, int(virtual_ptr<Obj, P>, virtual_<Obj&>), P>;
    struct Slot {
        std::string shape;
        detail::method_info* info;
        void* pf[MAXD];
        int m = -1;
        std::vector<type_id> vp;
    };
    std::vector<Slot> slots;
    std::deque<std::vector<type_id>> idlists;
    std::map<std::pair<int, int>, detail::definition_info*> defs;
    template<int... K> void fill1(Slot& s, std::integer_sequence<int, K...>) { ((s.pf[K] = (void*)&rec1<K>), ...); }
    template<int... K> void fill2(Slot& s, std::integer_sequence<int, K...>) { ((s.pf[K] = (void*)&rec2<K>), ...); }
    template<int... K> void fillp(Slot& s, std::integer_sequence<int, K...>) { ((s.pf[K] = (void*)&recp<K>), ...); }
    Reg() {
        P::classes.clear();
        P::methods.clear();
        auto seq = std::make_integer_sequence<int, MAXD>();
        Slot a; a.shape = "V"; a.info = &M1a::fn; fill1(a, seq); slots.push_back(a);
        Slot b; b.shape = "V"; b.info = &M1b::fn; fill1(b, seq); slots.push_back(b);
        Slot c; c.shape = "VV"; c.info = &M2a::fn; fill2(c, seq); slots.push_back(c);
        Slot d; d.shape = "PV"; d.info = &M2p::fn; fillp(d, seq); slots.push_back(d);
    }
    void add_class(int c, const std::vector<int>& bases) override {
        auto* ci = new (std::calloc(1, sizeof(detail::class_info))) detail::class_info;
        auto& l = idlists.emplace_back();
        for (int b : bases) l.push_back(16 * b);
        ci->type = 16 * c;
        ci->first_base = bases.empty() ? nullptr : l.data();
        ci->last_base = bases.empty() ? nullptr : l.data() + l.size();
        ci->static_vptr = new std::uintptr_t*(nullptr);
        P::classes.push_back(*ci);
    }
    Slot* slot_of(int m) {
        for (auto& s : slots) if (s.m == m) return &s;
        return nullptr;
    }
    bool add_method(int m, const std::string& shape, const std::vector<int>& vp) override {
        for (auto& s : slots) {
            if (s.m == -1 && s.shape == shape) {
                s.m = m;
                for (int c : vp) s.vp.push_back(16 * c);
                s.info->vp_begin = s.vp.data();
                s.info->vp_end = s.vp.data() + s.vp.size();
                P::methods.push_back(*s.info);
                return true;
            }
        }
        return false;
    }
    void add_def(int m, int d, const std::vector<int>& vp) override {
        Slot* s = slot_of(m);
        if (!s || d >= MAXD) return;
        auto* di = new (std::calloc(1, sizeof(detail::definition_info))) detail::definition_info;
        auto& l = idlists.emplace_back();
        for (int c : vp) l.push_back(16 * c);
        di->method = s->info;
        di->vp_begin = l.data();
        di->vp_end = l.data() + l.size();
        di->pf = s->pf[d];
        di->next = nullptr;
        s->info->specs.push_back(*di);
        defs[{m, d}] = di;
    }
    void remove_def(int m, int d) override {
        auto it = defs.find({m, d});
        if (it == defs.end()) return;
        slot_of(m)->info->specs.remove(*it->second);
        it->second->method = nullptr;
        defs.erase(it);
    }
    bool update() override {
        try {
            yorel::yomm2::update<P>();
            return true;
        } catch (...) {
            return false;
        }
    }
    int classify(Slot& s, void* pf) {
        if (pf == s.info->not_implemented) return -1;
        if (pf == s.info->ambiguous) return -2;
        for (int k = 0; k < MAXD; ++k) if (pf == s.pf[k]) return k;
        return -99;
    }
    int run(int m, Obj* const* o, char route) override {
        Slot* s = slot_of(m);
        try {
            if (s->info == &M1a::fn) return route == 'r' ? classify(*s, (void*)M1a::fn.resolve(*o[0])) : M1a::fn(*o[0]);
            if (s->info == &M1b::fn) return route == 'r' ? classify(*s, (void*)M1b::fn.resolve(*o[0])) : M1b::fn(*o[0]);
            if (s->info == &M2a::fn) return route == 'r' ? classify(*s, (void*)M2a::fn.resolve(*o[0], *o[1])) : M2a::fn(*o[0], *o[1]);
            // virtual_ptr: created, copied, used
            virtual_ptr<Obj, P> vp(*o[0]);
            virtual_ptr<Obj, P> cp(vp);
            return route == 'r' ? classify(*s, (void*)M2p::fn.resolve(cp, *o[1])) : M2p::fn(cp, *o[1]);
        } catch (const resolution_error& e) {
            return e.status == resolution_error::no_definition ? -1 : -2;
        } catch (...) {
            return -97;
        }
    }
    void footprint(std::vector<IReg::Range>& out) override {
        auto obj = [&](const char* k, const void* a, std::size_t n) { if (n) out.push_back({k, (std::uintptr_t)a, (std::uintptr_t)a + n}); };
        obj("cat", &P::classes, sizeof(P::classes));
        obj("cat", &P::methods, sizeof(P::methods));
        obj("disp", &P::dispatch_data, sizeof(P::dispatch_data));
        obj("disp", P::dispatch_data.data(), P::dispatch_data.size() * sizeof(std::uintptr_t));
        for (auto& s : slots) {
            obj("cat", s.info, sizeof(*s.info));
            if (s.m >= 0) obj("slots", s.info->slots_strides_ptr, (2 * s.vp.size() - 1) * sizeof(*s.info->slots_strides_ptr));
        }
        for (auto& ci : P::classes) obj("svp", ci.static_vptr, sizeof(*ci.static_vptr));
        if constexpr (P::template has_facet<policy::type_hash>) {
            obj("hashpar", &P::hash_mult, sizeof(P::hash_mult)); obj("hashpar", &P::hash_shift, sizeof(P::hash_shift));
            obj("hashpar", &P::hash_length, sizeof(P::hash_length));
            obj("hashpar", &P::hash_min, sizeof(P::hash_min)); obj("hashpar", &P::hash_max, sizeof(P::hash_max));
        }
        if constexpr (std::is_base_of_v<policy::checked_perfect_hash<P>, P>) {
            obj("ctrl", &P::control, sizeof(P::control));
            obj("ctrl", P::control.data(), P::control.size() * sizeof(type_id));
        }
        if constexpr (std::is_base_of_v<policy::vptr_vector<P>, P>) {
            obj("vec", &P::vptrs, sizeof(P::vptrs));
            obj("vec", P::vptrs.data(), P::vptrs.size() * sizeof(P::vptrs[0]));
        }
        if constexpr (std::is_base_of_v<policy::vptr_map<P>, P>) {
            obj("vec", &P::vptrs, sizeof(P::vptrs));
            for (auto& kv : P::vptrs) obj("vec", &kv, sizeof(kv));
        }
        if constexpr (std::is_base_of_v<policy::basic_indirect_vptr<P>, P>) {
            obj("vec", &P::indirect_vptrs, sizeof(P::indirect_vptrs));
            obj("vec", P::indirect_vptrs.data(), P::indirect_vptrs.size() * sizeof(P::indirect_vptrs[0]));
        }
    }
    unsigned long checksum() override {
        unsigned long h = 1469598103934665603ul;
        auto mix = [&](unsigned long v) { h = (h ^ v) * 1099511628211ul; };
        for (auto v : P::dispatch_data) mix(v);
        mix((unsigned long)P::dispatch_data.data());
        for (auto& s : slots) if (s.m >= 0) for (int i = 0; i < (int)(2 * s.vp.size() - 1); ++i) mix(s.info->slots_strides_ptr[i]);
        if constexpr (P::template has_facet<policy::type_hash>) {
            mix(P::hash_mult); mix(P::hash_shift); mix(P::hash_length);
        }
        if constexpr (std::is_base_of_v<policy::vptr_vector<P>, P>) {
            for (auto v : P::vptrs) mix((unsigned long)v);
        }
        return h;
    }
};

static std::string jl(const std::vector<int>& v) {
    std::string s = "[";
    for (std::size_t i = 0; i < v.size(); ++i) s += (i ? "," : "") + std::to_string(v[i]);
    return s + "]";
}

// every policy's storage as address ranges.  Ranges of one policy that overlap or nest (a vector object and a member of it,
// a method record and its inline slots) are coalesced, all ranges are sorted by their start and rank-encoded (TLC integers are
// 32 bits wide; order and disjointness are invariant under a monotone map).  The storage of different policies is disjoint
// iff every range of the sorted list ends before the next one starts: that is what the specification checks.
static void emit_footprint(FILE* out, IReg* const* regs, const char* when) {
    struct Cell { int p; std::string kind; std::uintptr_t lo, hi; };
    std::vector<Cell> cells;
    for (int p = 0; p < NPOL; ++p) {
        std::vector<IReg::Range> fp;
        regs[p]->footprint(fp);
        std::sort(fp.begin(), fp.end(), [](auto& a, auto& b) { return a.lo < b.lo || (a.lo == b.lo && a.hi > b.hi); });
        for (auto& r : fp) {
            if (!cells.empty() && cells.back().p == p && r.lo < cells.back().hi) { cells.back().hi = std::max(cells.back().hi, r.hi); continue; }
            cells.push_back({p, r.kind, r.lo, r.hi});
        }
    }
    std::stable_sort(cells.begin(), cells.end(), [](auto& a, auto& b) { return a.lo < b.lo; });
    std::set<std::uintptr_t> bounds;
    for (auto& c : cells) { bounds.insert(c.lo); bounds.insert(c.hi); }
    std::map<std::uintptr_t, int> rank; int n = 0; for (auto b : bounds) rank[b] = ++n;
    std::fprintf(out, "{\"e\":\"footprint\",\"when\":\"%s\",\"cells\":[", when);
    bool first = true;
    for (auto& c : cells) {
        std::fprintf(out, "%s{\"p\":%d,\"k\":\"%s\",\"lo\":%d,\"hi\":%d}", first ? "" : ",", c.p, c.kind.c_str(), rank[c.lo], rank[c.hi]);
        first = false; }
    std::fprintf(out, "]}\n");
}

int main(int argc, char** argv) {
    if (argc < 3) return 2;
    std::ifstream in(argv[1]);
    FILE* out = std::fopen(argv[2], "w");
    if (!in || !out) return 2;
    IReg* regs[NPOL] = {new Reg<pol::p0>, new Reg<pol::p1>, new Reg<pol::p2>, new Reg<pol::p3>, new Reg<pol::p4>, new Reg<pol::p5>};
    struct CRec { int c; std::vector<int> bases; };
    std::vector<CRec> crecs[NPOL];
    std::map<int, std::vector<int>> mvp[NPOL];
    std::map<int, std::string> mshape[NPOL];
    std::string line, id = "mt";
    int rcount = 0;
    int threads = 4, iters = 1000, seed = 1, updpol = 3; // updpol = 0: negative control (the updated policy is one the callers use)
    while (std::getline(in, line)) {
        std::istringstream ss(line);
        std::string k;
        ss >> k;
        if (k == "S") { ss >> id; std::fprintf(out, "{\"e\":\"reset\",\"script\":\"%s\",\"bindings\":[\"mt\"]}\n", id.c_str()); continue; }
        if (k == "MT") { ss >> threads >> iters >> seed; ss >> updpol; continue; }
        if (k == "E" || k == "B" || k.empty()) continue;
        int p; ss >> p;
        std::string shape;
        if (k == "m") { int m; ss >> m >> shape; std::vector<int> a; int n, v; ss >> n; while (ss >> v) a.push_back(v);
            if (regs[p]->add_method(m, shape, a)) { mvp[p][m] = a; mshape[p][m] = shape;
                if (p < 3) std::fprintf(out, "{\"e\":\"method\",\"p\":%d,\"m\":%d,\"shape\":\"%s\",\"vp\":%s}\n", p, m, shape.c_str(), jl(a).c_str()); }
            continue; }
        std::vector<int> a; int v; while (ss >> v) a.push_back(v);
        if (k == "c") { std::vector<int> bases(a.begin() + 4, a.end()); regs[p]->add_class(a[1], bases); crecs[p].push_back({a[1], bases});
            if (p < 3) std::fprintf(out, "{\"e\":\"class\",\"p\":%d,\"r\":%d,\"c\":%d,\"bases\":%s,\"abs\":false}\n", p, ++rcount, a[1], jl(bases).c_str()); }
        else if (k == "d") { std::vector<int> vp(a.begin() + 3, a.end()); if (!mvp[p].count(a[0])) continue; regs[p]->add_def(a[0], a[1], vp);
            if (p < 3) std::fprintf(out, "{\"e\":\"def\",\"p\":%d,\"m\":%d,\"d\":%d,\"vp\":%s}\n", p, a[0], a[1], jl(vp).c_str()); }
        else if (k == "u") { bool ok = regs[p]->update();
            if (p < 3) std::fprintf(out, "{\"e\":\"update\",\"p\":%d,\"res\":\"%s\",\"c\":0,\"rep\":{}}\n", p, ok ? "ok" : "weird"); }
    }
    // legal tuples per (policy, method)
    struct Target { int p, m; std::vector<std::vector<int>> tuples; };
    std::vector<Target> targets;
    for (int p = 0; p < 3; ++p) {
        auto up = [&](int c) { std::set<int> s{c}; bool g = true; while (g) { g = false; for (auto& r : crecs[p]) if (s.count(r.c)) for (int b : r.bases) if (s.insert(b).second) g = true; } return s; };
        for (auto& [m, vp] : mvp[p]) {
            Target t{p, m, {}};
            std::vector<std::vector<int>> cov(vp.size());
            for (std::size_t i = 0; i < vp.size(); ++i) for (auto& r : crecs[p]) if (up(r.c).count(vp[i])) cov[i].push_back(r.c);
            bool empty = false; for (auto& c : cov) if (c.empty()) empty = true;
            if (empty) continue;
            std::vector<std::size_t> idx(vp.size(), 0);
            while (true) { std::vector<int> tu; for (std::size_t i = 0; i < vp.size(); ++i) tu.push_back(cov[i][idx[i]]); t.tuples.push_back(tu);
                std::size_t k = 0; while (k < vp.size() && ++idx[k] == cov[k].size()) idx[k++] = 0; if (k == vp.size()) break; }
            targets.push_back(t);
        }
    }
    if (targets.empty()) { std::fprintf(out, "{\"e\":\"end\"}\n"); std::fclose(out); return 0; }
    emit_footprint(out, regs, "before");
    std::fflush(out); // the set-up events survive whatever happens in the concurrent phase
    unsigned long before[3];
    for (int p = 0; p < 3; ++p) before[p] = regs[p]->checksum();
    std::atomic<bool> stop{false};
    std::atomic<long> updates{0};
    std::vector<std::vector<Rec>> logs(threads);
    std::vector<std::thread> th;
    for (int t = 0; t < threads; ++t) {
        th.emplace_back([&, t] {
            std::mt19937 rng(seed * 1000 + t);
            for (int i = 0; i < iters; ++i) {
                auto& tg = targets[rng() % targets.size()];
                auto& tu = tg.tuples[rng() % tg.tuples.size()];
                Obj objs[2];
                Obj* po[2] = {&objs[0], &objs[1]};
                for (std::size_t k = 0; k < tu.size(); ++k) { objs[k].id = 16 * tu[k]; objs[k].cls = tu[k]; }
                char route = (rng() & 1) ? 'r' : 'c';
                int o = regs[tg.p]->run(tg.m, po, route);
                logs[t].push_back({tg.p, tg.m, tu, route, o});
            }
        });
    }
    std::thread upd([&] {
        int k = 0;
        while (!stop.load()) {
            // the unrelated policy changes and is updated again and again
            if (k & 1) regs[updpol]->remove_def(1, 7); else regs[updpol]->add_def(1, 7, mvp[updpol].count(1) ? mvp[updpol][1] : std::vector<int>{});
            if (mvp[updpol].count(1)) regs[updpol]->update();
            ++k; ++updates;
        }
    });
    for (auto& x : th) x.join();
    stop = true;
    upd.join();
    for (int t = 0; t < threads; ++t) {
        std::set<std::string> seen;
        for (auto& r : logs[t]) {
            std::string ev;
            if (r.route == 'r') {
                ev = "{\"e\":\"resolve\",\"p\":" + std::to_string(r.p) + ",\"m\":" + std::to_string(r.m) + ",\"t\":" + jl(r.t) + ",\"o\":" + std::to_string(r.o) + ",\"thread\":" + std::to_string(t) + "}";
            } else {
                ev = "{\"e\":\"call\",\"p\":" + std::to_string(r.p) + ",\"m\":" + std::to_string(r.m) + ",\"t\":" + jl(r.t) + ",\"o\":" + std::to_string(r.o) +
                     ",\"recv\":[],\"st\":0,\"ar\":0,\"ty\":[],\"then\":\"" + (r.o >= 0 ? "returned" : "thrown") + "\",\"thread\":" + std::to_string(t) + "}";
            }
            if (seen.insert(ev).second) std::fprintf(out, "%s\n", ev.c_str()); // identical observations of one thread are printed once
        }
    }
    emit_footprint(out, regs, "after");
    bool same = true;
    for (int p = 0; p < 3; ++p) same = same && before[p] == regs[p]->checksum();
    std::fprintf(out, "{\"e\":\"statics\",\"same\":%s,\"updates\":%ld,\"calls\":%ld}\n", same ? "true" : "false", updates.load(), (long)threads * iters);
    std::fprintf(out, "{\"e\":\"end\"}\n");
    std::fclose(out);
    std::fflush(nullptr);
    _exit(0);
}
