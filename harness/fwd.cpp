// C19 harness: the real generator::add_forward_declaration / write_forward_declarations.
// The written text is tokenised strictly (anything unexpected becomes a "g" token); TLC decides.
//   S <id>
//   n <qualified::name>      add_forward_declaration(name)
//   t <type description>     add_forward_declaration(description)   (name extraction)
//   k <qualified::name>      a class name the stimulus generator put into the descriptions (expected kept)
//   E                        write_forward_declarations, record
#include <yorel/yomm2/generator.hpp>

#include <cstdio>
#include <fstream>
#include <iostream>
#include <sstream>
#include <string>
#include <vector>

using namespace yorel::yomm2;

namespace verif_hooks {
std::size_t hash_budget = 0;
Sink* sink = nullptr;
} // namespace verif_hooks

static std::string jstr(const std::string& s) {
    std::string r = "\"";
    for (char c : s) {
        if (c == '"' || c == '\\') { r += '\\'; r += c; }
        else if ((unsigned char)c < 32) r += ' ';
        else r += c;
    }
    return r + "\"";
}
static std::string qname(const std::string& q) { // a::b::C -> ["a","b","C"]
    std::string r = "[", cur;
    for (std::size_t i = 0; i <= q.size(); ++i) {
        if (i == q.size() || (q[i] == ':' && i + 1 < q.size() && q[i + 1] == ':')) {
            r += (r.size() > 1 ? "," : "") + jstr(cur);
            cur.clear();
            if (i < q.size()) ++i;
        } else cur += q[i];
    }
    return r + "]";
}
static bool ident(const std::string& s) {
    if (s.empty() || !(std::isalpha((unsigned char)s[0]) || s[0] == '_')) return false;
    for (char c : s) if (!(std::isalnum((unsigned char)c) || c == '_')) return false;
    return true;
}

int main(int argc, char** argv) {
    if (argc < 3) return 2;
    std::ifstream in(argv[1]);
    FILE* out = std::fopen(argv[2], "w");
    if (!in || !out) return 2;
    std::string line, id;
    generator* gen = nullptr;
    std::vector<std::string> expected;
    while (std::getline(in, line)) {
        if (line.size() < 1) continue;
        std::string k = line.substr(0, line.find(' '));
        std::string arg = line.size() > k.size() + 1 ? line.substr(k.size() + 1) : "";
        if (k == "S") {
            delete gen;
            gen = new generator;
            expected.clear();
            id = arg.substr(0, arg.find(' '));
            std::fprintf(out, "{\"e\":\"reset\",\"script\":\"%s\",\"bindings\":[\"-\"]}\n", id.c_str());
        } else if (k == "n") {
            gen->add_forward_declaration(std::string_view(arg));
            expected.push_back(arg);
        } else if (k == "t") {
            gen->add_forward_declaration(std::string_view(arg));
        } else if (k == "k") {
            expected.push_back(arg);
        } else if (k == "E") {
            std::ostringstream os;
            gen->write_forward_declarations(os);
            std::istringstream is(os.str());
            std::string l, toks;
            while (std::getline(is, l)) {
                std::string t;
                std::istringstream ls(l);
                std::vector<std::string> w;
                std::string x;
                while (ls >> x) w.push_back(x);
                if (w.size() == 3 && w[0] == "namespace" && ident(w[1]) && w[2] == "{") t = "[\"o\"," + jstr(w[1]) + "]";
                else if (w.size() == 1 && w[0] == "}") t = "[\"c\"]";
                else if (w.size() == 2 && w[0] == "class" && w[1].size() > 1 && w[1].back() == ';' && ident(w[1].substr(0, w[1].size() - 1)))
                    t = "[\"d\"," + jstr(w[1].substr(0, w[1].size() - 1)) + "]";
                else if (w.empty()) continue;
                else t = "[\"g\"," + jstr(l) + "]";
                toks += (toks.empty() ? "" : ",") + t;
            }
            std::string names;
            for (auto& e : expected) names += (names.empty() ? "" : ",") + qname(e);
            std::fprintf(out, "{\"e\":\"fwd\",\"names\":[%s],\"tokens\":[%s]}\n", names.c_str(), toks.c_str());
        }
    }
    std::fclose(out);
    return 0;
}
