// C18 harness: drives the real detail::static_list<T> with operation sequences and records what
// the list shows after every operation.  No oracle here; TLC (TraceStaticList.tla) decides.
//
// usage: sl <script> <trace>
// script lines:  S <id> <client>     client: node | class | method | definition
//                p <n> | r <n> | c   push / remove node n / clear
//                E
#include <yorel/yomm2/core.hpp>

#include <algorithm>
#include <cstdio>
#include <cstdlib>
#include <cstring>
#include <fstream>
#include <iostream>
#include <memory>
#include <sstream>
#include <string>
#include <vector>
#include <sys/wait.h>
#include <unistd.h>

using namespace yorel::yomm2;

namespace verif_hooks {
std::size_t hash_budget = 0;
Sink* sink = nullptr;
} // namespace verif_hooks

constexpr int MAXN = 9;

// ---- instrumented node type: exposes the links
struct Node : detail::static_list<Node>::static_link {
    int n = 0;
    Node* prev() const { return prev_ptr; }
    Node* nextp() const { return next_ptr; }
};
struct NodeList : detail::static_list<Node> {
    Node* head() const { return first; }
};

struct IClient {
    virtual ~IClient() {}
    virtual void push(int n) = 0;
    virtual void remove(int n) = 0;
    virtual void clear() = 0;
    virtual std::string observe() = 0; // ,"iter":[..],"size":k,"empty":b,"links":b[,first,prev,next]
};

static std::string jl(const std::vector<int>& v) {
    std::string s = "[";
    for (std::size_t i = 0; i < v.size(); ++i) s += (i ? "," : "") + std::to_string(v[i]);
    return s + "]";
}

struct NodeClient : IClient {
    // zero-initialised storage, like the static objects the library links
    NodeList* list;
    Node* nodes;
    NodeClient() {
        list = new (std::calloc(1, sizeof(NodeList))) NodeList;
        nodes = static_cast<Node*>(std::calloc(MAXN, sizeof(Node)));
        for (int i = 0; i < MAXN; ++i) (new (&nodes[i]) Node)->n = i;
    }
    void push(int n) override { list->push_back(nodes[n]); }
    void remove(int n) override { list->remove(nodes[n]); }
    void clear() override { list->clear(); }
    std::string observe() override {
        std::vector<int> it;
        int guard = 0;
        for (auto& x : *list) {
            it.push_back(x.n);
            if (++guard > 64) break;
        }
        std::vector<int> pv(MAXN - 1), nx(MAXN - 1);
        for (int i = 1; i < MAXN; ++i) {
            pv[i - 1] = nodes[i].prev() ? nodes[i].prev()->n : 0;
            nx[i - 1] = nodes[i].nextp() ? nodes[i].nextp()->n : 0;
        }
        return ",\"iter\":" + jl(it) + ",\"size\":" + std::to_string(list->size()) + ",\"empty\":" +
               (list->empty() ? "true" : "false") + ",\"links\":true,\"first\":" +
               std::to_string(list->head() ? list->head()->n : 0) + ",\"prev\":" + jl(pv) + ",\"next\":" + jl(nx);
    }
};

// ---- the three real clients, through the library's own registration objects
struct P18 : policy::basic_policy<P18, policy::std_rtti, policy::vptr_vector<P18>, policy::vectored_error<P18>> {};
struct Base18 { virtual ~Base18() {} };
template<int I> struct Cls : Base18 {};
template<int I> struct MKey {};

template<class T>
static std::string observe_catalog(T& cat, const std::vector<const void*>& objs) {
    std::vector<int> it;
    int guard = 0;
    for (auto& x : cat) {
        int who = 0;
        for (std::size_t i = 1; i < objs.size(); ++i) {
            if (objs[i] == static_cast<const void*>(&x)) who = (int)i;
        }
        it.push_back(who);
        if (++guard > 64) break;
    }
    return ",\"iter\":" + jl(it) + ",\"size\":" + std::to_string(cat.size()) + ",\"empty\":" +
           (cat.empty() ? "true" : "false") + ",\"links\":false,\"first\":0,\"prev\":[],\"next\":[]";
}

struct ClassClient : IClient {
    // node n = a class_declaration object for class Cls<n>: constructor registers, destructor unregisters
    std::vector<const void*> objs = std::vector<const void*>(MAXN, nullptr);
    std::vector<std::shared_ptr<void>> keep = std::vector<std::shared_ptr<void>>(MAXN);
    ~ClassClient() {
        for (int n = MAXN - 1; n >= 0; --n) keep[n].reset(); // unregister what is still registered
    }
    template<int I> void make() {
        using D = class_declaration<Cls<I>, Base18, P18>;
        // zero-initialised storage, as for the static objects the library is used with
        std::shared_ptr<D> p(new (std::calloc(1, sizeof(D))) D, [](D* d) { d->~D(); std::free(d); });
        objs[I] = static_cast<const detail::class_info*>(p.get());
        keep[I] = p;
    }
    void push(int n) override {
        switch (n) { case 1: make<1>(); break; case 2: make<2>(); break; case 3: make<3>(); break; case 4: make<4>(); break;
                     case 5: make<5>(); break; case 6: make<6>(); break; case 7: make<7>(); break; default: make<8>(); }
    }
    void remove(int n) override { keep[n].reset(); objs[n] = nullptr; }
    void clear() override {
        P18::classes.clear();
        // the registration objects are no longer in any list: they must not unregister themselves
        for (auto& k : keep) {
            if (k) new std::shared_ptr<void>(std::move(k)); // leaked on purpose
        }
        std::fill(objs.begin(), objs.end(), nullptr);
    }
    std::string observe() override { return observe_catalog(P18::classes, objs); }
};

struct MethodClient : IClient {
    std::vector<const void*> objs = std::vector<const void*>(MAXN, nullptr);
    std::vector<std::shared_ptr<void>> keep = std::vector<std::shared_ptr<void>>(MAXN);
    MethodClient() { P18::methods.clear(); }
    ~MethodClient() {
        for (int n = MAXN - 1; n >= 0; --n) keep[n].reset();
    }
    template<int I> void make() {
        using M = method<MKey<I>, void(virtual_<Base18&>), P18>;
        std::shared_ptr<M> p(new (std::calloc(1, sizeof(M))) M, [](M* m) { m->~M(); std::free(m); });
        objs[I] = static_cast<const detail::method_info*>(p.get());
        keep[I] = p;
    }
    void push(int n) override {
        switch (n) { case 1: make<1>(); break; case 2: make<2>(); break; case 3: make<3>(); break; case 4: make<4>(); break;
                     case 5: make<5>(); break; case 6: make<6>(); break; case 7: make<7>(); break; default: make<8>(); }
    }
    void remove(int n) override { keep[n].reset(); objs[n] = nullptr; }
    void clear() override {
        P18::methods.clear();
        for (auto& k : keep) {
            if (k) new std::shared_ptr<void>(std::move(k)); // leaked on purpose
        }
        std::fill(objs.begin(), objs.end(), nullptr);
    }
    std::string observe() override { return observe_catalog(P18::methods, objs); }
};

using M18 = method<MKey<100>, void(virtual_<Base18&>), P18>;
template<int I> void def18(Base18&) {}
struct DefinitionClient : IClient {
    // node n = a definition_info attached to M18::fn; its destructor removes it from the method
    std::vector<const void*> objs = std::vector<const void*>(MAXN, nullptr);
    std::vector<detail::definition_info*> infos = std::vector<detail::definition_info*>(MAXN, nullptr);
    void push(int n) override {
        auto* d = new (std::calloc(1, sizeof(detail::definition_info))) detail::definition_info;
        d->method = &M18::fn;
        M18::fn.specs.push_back(*d);
        infos[n] = d;
        objs[n] = d;
    }
    void remove(int n) override {
        infos[n]->~definition_info();
        std::free(infos[n]);
        infos[n] = nullptr;
        objs[n] = nullptr;
    }
    void clear() override {
        M18::fn.specs.clear();
        for (auto*& d : infos) {
            if (d) d->method = nullptr; // cleared lists no longer own them
            d = nullptr;
        }
        std::fill(objs.begin(), objs.end(), nullptr);
    }
    ~DefinitionClient() {
        for (auto* d : infos) {
            if (d) { d->~definition_info(); std::free(d); }
        }
    }
    std::string observe() override { return observe_catalog(M18::fn.specs, objs); }
};

static void run_script(const std::vector<std::string>& lines, FILE* out) {
    std::unique_ptr<IClient> cl;
    for (auto& line : lines) {
        std::istringstream ss(line);
        std::string k;
        ss >> k;
        if (k == "S") {
            std::string id, client;
            ss >> id >> client;
            if (client == "node") cl.reset(new NodeClient);
            else if (client == "class") { P18::classes.clear(); cl.reset(new ClassClient); }
            else if (client == "method") cl.reset(new MethodClient);
            else { M18::fn.specs.clear(); cl.reset(new DefinitionClient); }
        } else if (k == "p" || k == "r") {
            int n;
            ss >> n;
            if (k == "p") cl->push(n); else cl->remove(n);
            std::fprintf(out, "{\"e\":\"%s\",\"n\":%d%s}\n", k == "p" ? "push" : "remove", n, cl->observe().c_str());
            std::fflush(out);
        } else if (k == "c") {
            cl->clear();
            std::fprintf(out, "{\"e\":\"clear\",\"n\":0%s}\n", cl->observe().c_str());
            std::fflush(out);
        }
    }
}

int main(int argc, char** argv) {
    if (argc < 3) return 2;
    std::ifstream in(argv[1]);
    FILE* out = std::fopen(argv[2], "w");
    if (!in || !out) return 2;
    std::string line;
    std::vector<std::vector<std::string>> scripts;
    while (std::getline(in, line)) {
        if (line.rfind("S ", 0) == 0) scripts.emplace_back();
        if (!scripts.empty() && !line.empty()) scripts.back().push_back(line);
    }
    for (auto& sc : scripts) {
        std::istringstream ss(sc[0]);
        std::string k, id, client;
        ss >> k >> id >> client;
        std::fprintf(out, "{\"e\":\"reset\",\"script\":\"%s\",\"bindings\":[\"%s\"]}\n", id.c_str(), client.c_str());
        std::fflush(out);
        // each script in its own child: a corrupted list cannot take the driver down
        pid_t pid = fork();
        if (pid == 0) {
            alarm(10);
            run_script(sc, out);
            std::fflush(out);
            _exit(0);
        }
        int status = 0;
        waitpid(pid, &status, 0);
        if (WIFSIGNALED(status)) {
            std::fprintf(out, "{\"e\":\"died\",\"sig\":%d}\n", WTERMSIG(status));
            std::fflush(out);
        }
    }
    std::fclose(out);
    return 0;
}
