// Force-included by every harness build (-include).  Bodies of the hooks that
// /repo gains under #ifdef YOMM2_VERIF; with the guard off they do not exist.
#ifndef VERIF_HOOKS_HPP
#define VERIF_HOOKS_HPP
#include <cstddef>
#include <cstdint>

namespace verif_hooks {
// H1: attempt budget of the perfect-hash search (0 = library default)
extern std::size_t hash_budget;
// H2/H3: read / write events on the dispatch path
struct Sink {
    virtual void read(const char* kind, const void* base, std::size_t index) = 0;
    virtual void write(const char* kind, const void* cell, std::size_t cls, std::size_t method, std::size_t param) = 0;
    virtual void decode(const char* kind, const void* a, const void* b) = 0;
};
extern Sink* sink;
} // namespace verif_hooks

#define YOMM2_VERIF_HASH_BUDGET (::verif_hooks::hash_budget)
#define YOMM2_VERIF_READ(kind, base, index) \
    do { if (::verif_hooks::sink) ::verif_hooks::sink->read(kind, base, index); } while (0)
#define YOMM2_VERIF_WRITE(kind, cell, cls, method, param) \
    do { if (::verif_hooks::sink) ::verif_hooks::sink->write(kind, cell, cls, method, param); } while (0)
#define YOMM2_VERIF_DECODE(kind, a, b) \
    do { if (::verif_hooks::sink) ::verif_hooks::sink->decode(kind, a, b); } while (0)
#endif
