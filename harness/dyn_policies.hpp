// dyn harness: RTTI facets and the pool of policy configurations.
#ifndef VERIF_DYN_POLICIES_HPP
#define VERIF_DYN_POLICIES_HPP

#include "dyn_common.hpp"

namespace dyn {

using namespace yorel::yomm2;

// ---------------------------------------------------------------------------
// custom rtti: ids are run-time values carried by the object
struct dyn_rtti : policy::rtti {
    template<typename T>
    static type_id static_type() {
        if constexpr (node_index<T>::value >= 0) {
            return g_node_static_id[node_index<T>::value];
        } else if constexpr (std::is_same_v<T, Obj>) {
            return 1; // never the id of a registered class (ids are >= 16)
        } else {
            return reinterpret_cast<type_id>(&typeid(T));
        }
    }
    template<typename T>
    static type_id dynamic_type(const T& obj) {
        if constexpr (std::is_base_of_v<Obj, T>) {
            return obj.id;
        } else {
            return kNotAnObject;
        }
    }
    template<class Stream>
    static void type_name(type_id t, Stream& s) {
        s << "cls#" << t;
    }
    template<typename D, typename B>
    static D dynamic_cast_ref(B&& obj) {
        return dynamic_cast<D>(obj);
    }
};

// many-to-one projection: ids 16*c + alias all denote class c
struct proj_rtti : dyn_rtti {
    static type_id type_index(type_id t) {
        return t / 16;
    }
};

// ids that differ only above bit 31 (e.g. (module << 32) | serial): the inherited identity type_index
struct wide_rtti : dyn_rtti {};

// small integer ids starting at 0 (class c has id c - 1): an id of 0 is a perfectly good id for a custom rtti
struct small_rtti : dyn_rtti {
    template<typename T>
    static type_id static_type() {
        if constexpr (node_index<T>::value >= 0) {
            return g_node_static_id[node_index<T>::value];
        } else if constexpr (std::is_same_v<T, Obj>) {
            return 0xFFFF; // never the id of a registered class (ids are < 64)
        } else {
            return reinterpret_cast<type_id>(&typeid(T));
        }
    }
};

// deferred ids: catalogs hold pointers to functions returning the id
extern type_id g_deferred_id[64];
template<int K>
type_id deferred_fn() {
    return g_deferred_id[K];
}
struct def_rtti : policy::deferred_static_rtti {
    template<typename T>
    static type_id static_type() {
        if constexpr (node_index<T>::value >= 0) {
            return g_node_static_id[node_index<T>::value];
        } else if constexpr (std::is_same_v<T, Obj>) {
            return 1;
        } else {
            return reinterpret_cast<type_id>(&typeid(T));
        }
    }
    template<typename T>
    static type_id dynamic_type(const T& obj) {
        if constexpr (std::is_base_of_v<Obj, T>) {
            return obj.id;
        } else {
            return kNotAnObject;
        }
    }
    template<class Stream>
    static void type_name(type_id t, Stream& s) {
        s << "cls#" << t;
    }
    template<typename D, typename B>
    static D dynamic_cast_ref(B&& obj) {
        return dynamic_cast<D>(obj);
    }
};

// ---------------------------------------------------------------------------
// the pool
namespace pol {

using namespace policy;

struct fast : basic_policy<fast, dyn_rtti, fast_perfect_hash<fast>, vptr_vector<fast>, vectored_error<fast>> {};
struct chk : basic_policy<chk, dyn_rtti, checked_perfect_hash<chk>, vptr_vector<chk>, basic_error_output<chk>, vectored_error<chk>> {};
struct vec : basic_policy<vec, dyn_rtti, vptr_vector<vec>, vectored_error<vec>> {};
struct map : basic_policy<map, dyn_rtti, vptr_map<map>, vectored_error<map>> {};
struct ind : basic_policy<ind, dyn_rtti, checked_perfect_hash<ind>, vptr_vector<ind>, basic_indirect_vptr<ind>, basic_error_output<ind>, vectored_error<ind>> {};
struct indvec : basic_policy<indvec, dyn_rtti, vptr_vector<indvec>, basic_indirect_vptr<indvec>, vectored_error<indvec>> {};
struct indfast : basic_policy<indfast, dyn_rtti, fast_perfect_hash<indfast>, vptr_vector<indfast>, basic_indirect_vptr<indfast>, vectored_error<indfast>> {};
struct thr : basic_policy<thr, dyn_rtti, fast_perfect_hash<thr>, vptr_vector<thr>, throw_error> {};
struct old : basic_policy<old, dyn_rtti, fast_perfect_hash<old>, vptr_vector<old>, basic_error_output<old>, backward_compatible_error_handler<old>> {};
struct prj : basic_policy<prj, proj_rtti, fast_perfect_hash<prj>, vptr_vector<prj>, vectored_error<prj>> {};
struct prjmap : basic_policy<prjmap, proj_rtti, vptr_map<prjmap>, vectored_error<prjmap>> {};
struct wide : basic_policy<wide, wide_rtti, fast_perfect_hash<wide>, vptr_vector<wide>, vectored_error<wide>> {};
struct widemap : basic_policy<widemap, wide_rtti, vptr_map<widemap>, vectored_error<widemap>> {};
struct small : basic_policy<small, small_rtti, fast_perfect_hash<small>, vptr_vector<small>, vectored_error<small>> {};
struct smallchk : basic_policy<smallchk, small_rtti, checked_perfect_hash<smallchk>, vptr_vector<smallchk>, basic_error_output<smallchk>, vectored_error<smallchk>> {};
struct dfr : basic_policy<dfr, def_rtti, vptr_vector<dfr>, vectored_error<dfr>> {};
struct dfrh : basic_policy<dfrh, def_rtti, fast_perfect_hash<dfrh>, vptr_vector<dfrh>, vectored_error<dfrh>> {};
// derived from the stock policies the way users do it
struct dbg : policy::debug::rebind<dbg>::replace<policy::rtti, dyn_rtti> {};
struct rel : policy::release::rebind<rel>::replace<policy::rtti, dyn_rtti> {};
struct rem : policy::debug::rebind<rem>::replace<policy::rtti, dyn_rtti>::remove<policy::trace_output> {};
// std rtti (real type_info addresses), stock configurations
struct stdd : policy::debug::rebind<stdd> {};
struct stdr : policy::release::rebind<stdr> {};
struct stdmap : basic_policy<stdmap, std_rtti, vptr_map<stdmap>, vectored_error<stdmap>> {};

} // namespace pol
} // namespace dyn

#endif
