"""Emitter for C20: use_definitions / product / aggregate programs."""
import sys
import os
sys.path.insert(0, os.path.join(os.path.dirname(os.path.dirname(os.path.abspath(__file__))), "lib"))
import gen


def scenario_code(idx, lists, undefined, K, nested=None):
    """nested (default: every third scenario): the definition container names its method with a nested
    `method` typedef while its first template argument is ANOTHER method class (X) with the same signature:
    every definition must go to the named method, none to X."""
    if nested is None:
        nested = idx % 3 == 1
    n = len(lists)
    ns = "s%d" % idx
    vparams = ", ".join("virtual_<Base&>" for _ in range(n))
    tl = ", ".join("types<%s>" % ", ".join("C<%d>" % c for c in l) for l in lists)
    o = []
    o.append("namespace %s {" % ns)
    o.append("struct key;")
    o.append("using M = method<key, int(%s), pol>;" % vparams)
    o.append("struct xkey;")
    o.append("using X = method<xkey, int(%s), pol>;" % vparams)
    first = "X" if nested else "M"
    o.append("template<typename Method, typename... T> struct definition {")
    if nested:
        o.append("    using method = M;")
    o.append("    static int fn(T&... a) { g_ran.clear(); (g_ran.push_back(T::idx), ...); return 0; }")
    o.append("};")
    for k, u in enumerate(undefined):
        # an opted-out combination may still carry a function (a generic container that implements fn for every combination and
        # opts some out through its base): it is the base not_defined that decides, not the presence of fn
        body = "{}" if (idx + k) % 2 == 0 else "{ static int fn(%s) { g_ran.clear(); g_ran.push_back(-1); return -1; } }" % ", ".join("C<%d>&" % c for c in u)
        o.append("template<> struct definition<%s, %s> : not_defined %s;" % (first, ", ".join("C<%d>" % c for c in u), body))
    o.append("using P = product<%s>;" % tl)
    o.append("use_definitions<definition, product<types<%s>, %s>> reg;" % (first, tl))
    # a combination reached by a second registration object (the same product again, or an overlapping one) is still ONE definition
    if idx % 4 == 2:
        o.append("use_definitions<definition, product<types<%s>, %s>> reg_again;" % (first, tl))
    elif idx % 4 == 3:
        sub = ", ".join("types<%s>" % ", ".join("C<%d>" % c for c in (l[:1] if i == 0 else l)) for i, l in enumerate(lists))
        o.append("use_definitions<definition, product<types<%s>, %s>> reg_overlap;" % (first, sub))
    o.append("void run() {")
    o.append('    std::string s = "{\\"e\\":\\"tmpl\\",\\"id\\":%d,\\"K\\":%d,\\"lists\\":%s,\\"undefined\\":%s,\\"product\\":[";' %
             (idx, K, str([list(l) for l in lists]).replace(" ", ""), str([list(u) for u in undefined]).replace(" ", "")))
    o.append("    bool first = true;")
    o.append("    boost::mp11::mp_for_each<boost::mp11::mp_transform<boost::mp11::mp_identity, P>>([&](auto t) {")
    o.append('        s += (first ? "" : ","); first = false; s += tuple_json(static_cast<typename decltype(t)::type*>(nullptr)); });')
    o.append('    s += "],\\"catalog\\":[";')
    o.append("    first = true;")
    o.append("    for (auto& d : M::fn.specs) {")
    o.append('        s += (first ? "[" : ",["); first = false;')
    o.append("        bool f2 = true;")
    o.append("        for (auto p = d.vp_begin; p != d.vp_end; ++p) { s += (f2 ? \"\" : \",\") + std::to_string(class_of(*p)); f2 = false; }")
    o.append('        s += "]";')
    o.append("    }")
    o.append('    s += "],\\"other\\":" + std::to_string(X::fn.specs.size()) + ",\\"calls\\":[";')
    o.append("    int ncalls = 0; first = true;")
    o.append("    int t[%d];" % n)
    loops = ""
    for i in range(n):
        loops += "for (t[%d] = 1; t[%d] <= %d; ++t[%d]) " % (i, i, K, i)
    o.append("    " + loops + "{")
    o.append("        int code = 0; g_ran.clear();")
    o.append("        try { M::fn(%s); } catch (const resolution_error& e) { code = e.status == resolution_error::no_definition ? -1 : -2; }" %
             ", ".join("*objs[t[%d]]" % i for i in range(n)))
    o.append('        s += (first ? "[[" : ",[["); first = false;')
    o.append("        for (int i = 0; i < %d; ++i) s += (i ? \",\" : \"\") + std::to_string(t[i]);" % n)
    o.append('        s += "]," + std::to_string(code) + ",[";')
    o.append("        for (std::size_t i = 0; i < g_ran.size(); ++i) s += (i ? \",\" : \"\") + std::to_string(g_ran[i]);")
    o.append('        s += "]]"; ++ncalls;')
    o.append("    }")
    o.append('    s += "],\\"ncalls\\":" + std::to_string(ncalls) + "}";')
    o.append("    std::puts(s.c_str());")
    o.append("}")
    o.append("} // namespace")
    return "\n".join(o)


def program(name, scenarios, K):
    """scenarios: list of (idx, lists, undefined)."""
    o = [gen.PRELUDE]
    o.append("struct pol : policy::basic_policy<pol, policy::std_rtti, policy::fast_perfect_hash<pol>, policy::vptr_vector<pol>, policy::throw_error> {};")
    o.append("struct Base { virtual ~Base() {} };")
    o.append("template<int I> struct C : Base { static constexpr int idx = I; };")
    o.append("use_classes<Base, %s, pol> reg_classes;" % ", ".join("C<%d>" % i for i in range(1, K + 1)))
    o.append("static std::vector<int> g_ran;")
    o.append("static Base* objs[%d];" % (K + 1))
    o.append("static int class_of(type_id id) {")
    o.append("    const std::type_info* tis[] = {&typeid(Base), %s};" % ", ".join("&typeid(C<%d>)" % i for i in range(1, K + 1)))
    o.append("    for (int i = 0; i <= %d; ++i) if (reinterpret_cast<type_id>(tis[i]) == id) return i;" % K)
    o.append("    return -1;")
    o.append("}")
    o.append("template<typename... T> static std::string tuple_json(detail::types<T...>*) {")
    o.append('    std::string s = "["; bool f = true; ((s += (f ? "" : ","), s += std::to_string(T::idx), f = false), ...); return s + "]";')
    o.append("}")
    for idx, lists, undefined in scenarios:
        o.append(scenario_code(idx, lists, undefined, K))
    o.append("template<int I> static void make_objs() { objs[I] = new C<I>; if constexpr (I > 1) make_objs<I - 1>(); }")
    o.append("int main() {")
    o.append('    std::printf("{\\"e\\":\\"reset\\",\\"script\\":\\"%s\\",\\"bindings\\":[\\"gen\\"]}\\n");' % name)
    o.append("    make_objs<%d>();" % K)
    o.append("    update<pol>();")
    for idx, lists, undefined in scenarios:
        o.append("    s%d::run();" % idx)
    o.append('    std::puts("{\\"e\\":\\"ok\\"}");')
    o.append("    return 0;")
    o.append("}")
    return "\n".join(o)
