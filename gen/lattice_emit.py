"""Emitter for C08 / C01 with real classes: the inheritance graph is a real C++ hierarchy (virtual
inheritance where a base is reached along two paths), registered through register_classes /
use_classes statements that split it in arbitrary ways; the log uses the event vocabulary of the dyn
harness and is validated by TraceYomm2."""
import os
import sys
sys.path.insert(0, os.path.join(os.path.dirname(os.path.dirname(os.path.abspath(__file__))), "lib"))
import gen


def anc_closure(edges, classes):
    direct = {c: set() for c in classes}
    for d, b in edges:
        direct[d].add(b)
    anc = {}

    def up(c):
        if c not in anc:
            s = {c}
            for b in direct[c]:
                s |= up(b)
            anc[c] = s
        return anc[c]
    for c in classes:
        up(c)
    return anc


POLS = {0: None, 1: "vpol1", 2: "vpol2", 3: "vpol3", 4: "vpol4", 5: "vpol5", 6: "vpol6"}
# policies 3 and 4 use custom type ids carried by the classes themselves (static member kid, virtual function vid()):
# 3: eager ids that differ only above bit 31, perfect hash; 4: deferred ids (assigned at run time, before update), pointer map
# 6: small integer ids that start at 0 (the smallest class number of the program's policy-6 scenarios gets id 0), perfect hash
CUSTOM_IDS = (3, 4, 6)


def kid_of(pol, c):
    if pol == 6:
        return "(%d - VPOL6_BASE)" % c
    return "((std::size_t(%d) << 32) | 16)" % c if pol == 3 else str(16 * c)


def _vptr(k, pol):
    # an alias: a template-id with a comma cannot be written inside the macros' parameter tuples
    return "VP%d" % k


def _mparams(shape, vp, pol=0):
    """declared parameter list of a method: shape over V virtual_<K&>, W virtual_<K*>, P virtual_ptr<K>, N int"""
    out, vi = [], 0
    for ch in shape:
        if ch == "N":
            out.append("int")
        else:
            k = vp[vi]
            vi += 1
            out.append({"V": "virtual_<K%d&>" % k, "W": "virtual_<K%d*>" % k, "P": _vptr(k, pol), "Q": "VSP%d" % k,
                        "S": "virtual_<SP%d>" % k, "C": "virtual_<const SP%d&>" % k}[ch])
    return ", ".join(out)


def _dparams(shape, dvp, pol=0, skip_first=False):
    out, vi = [], 0
    for i, ch in enumerate(shape):
        if ch == "N":
            out.append("int n%d" % i)
        else:
            k = dvp[vi]
            vi += 1
            out.append({"V": "K%d& a%d" % (k, i), "W": "K%d* a%d" % (k, i), "P": "%s a%d" % (_vptr(k, pol), i), "Q": "VSP%d a%d" % (k, i),
                        "S": "SP%d a%d" % (k, i), "C": "const SP%d& a%d" % (k, i)}[ch])
    return ", ".join(out[1:] if skip_first else out)


def _tagcheck(shape, dvp):
    """the definition looks at what it received: every virtual argument must be an object whose K<class> sub-object carries
    that class's tag (a pointer that was not adjusted reads something else)"""
    out, vi = [], 0
    for i, ch in enumerate(shape):
        if ch == "N":
            continue
        k = dvp[vi]
        vi += 1
        out.append("a%d%stag%d == %d" % (i, "." if ch == "V" else "->", k, k))
        if ch in "PQ":
            # the handle a definition receives is derived from the caller's (Yomm2!DeriveVptr: same pointee, same class): it
            # carries the v-table of the object's dynamic class, i.e. the one a fresh look-up through the object finds
            out.append("a%d._vptr() == VP%d(*a%d)._vptr()" % (i, k, i))
    return " && ".join(out) or "true"


def _fwd(shape):
    return ", ".join(("n%d" if ch == "N" else "a%d") % i for i, ch in enumerate(shape))


def _args(shape, vp, t, pol=0, salt=0):
    """call arguments for objects o<class> of dynamic classes t, statically typed as the method's classes vp"""
    out, vi = [], 0
    for i, ch in enumerate(shape):
        if ch == "N":
            out.append(str(100 + i))
            continue
        v, x = vp[vi], t[vi]
        vi += 1
        ref = "static_cast<K%d&>(o%d)" % (v, x)
        # a virtual_ptr argument is built by one of four routes: from a reference of the parameter's class (dynamic look-up),
        # from a virtual_ptr of the object's exact class (static shortcut) converted on the way, from a final one, or directly
        # from the object under its own (derived) static type
        route = (salt + i + x) % 4
        vptr = {0: "%s(%s)" % (_vptr(v, pol), ref), 1: "%s(%s(o%d))" % (_vptr(v, pol), _vptr(x, pol), x),
                2: "%s(%s::final(o%d))" % (_vptr(v, pol), _vptr(x, pol), x), 3: "%s(o%d)" % (_vptr(v, pol), x)}[route]
        # shared kinds: the objects s<class> are shared_ptr<K<class>> to the most derived object
        shp = "SP%d(s%d)" % (v, x)
        vsp = {0: "VSP%d(%s)" % (v, shp), 1: "VSP%d(VSP%d(s%d))" % (v, x, x), 2: "VSP%d(s%d)" % (v, x), 3: "VSP%d(VSP%d::final(s%d))" % (v, x, x)}[route]
        out.append({"V": ref, "W": "&" + ref, "P": vptr, "Q": vsp, "S": shp, "C": shp}[ch])
    return ", ".join(out)


CAN_FORWARD = {"plain", "box", "inline", "api_next", "api_use", "api_own", "api_fun"}


def scenario(idx, classes, edges, statements, methods, defs, abstract=(), shapes=None, style=None):
    """methods: [(m, vp)]; shapes: optional dict m -> shape string (default: all virtual_<K&>);
    style: optional front-end variants --
      style["pol"]      0 the default policy | 1 a policy derived from it by rebind | 2 a hand-assembled one (vptr_map)
      style["reg"][i]   how statement i registers: classes (register_classes) | use (use_classes<> object) |
                        decl (one class_declaration per class, bases as listed, itself left out) |
                        nested (register_classes over several types<...> lists, in any order)
      style["meth"][m]  free | static (declare_static_method inside a struct) | over (overloaded name, by parameter count)
      style["def"][(m,d)] plain | box (define_method in a method container) | inline (define_method_inline) |
                        api_next / api_use / api_own / api_plain (add_definition<Container>, the container taking its
                        next from method::next<>, use_next<>, its own static member, or having none) |
                        api_fun / api_fun0 (add_function<f> with / without a next pointer) |
                        member (add_member_function<&K::f>; first parameter must be virtual_<K*>)
      style["call"][m]  fn (the generated function) | class (method_class(...)::fn)"""
    shapes = shapes or {}
    style = style or {}
    shape_of = lambda m, vp: shapes.get(m, "V" * len(vp))
    sreg = style.get("reg", {})
    smeth = style.get("meth", {})
    sdef = style.get("def", {})
    scall = style.get("call", {})
    pol = style.get("pol", 0)
    polarg = (", " + POLS[pol]) if pol else ""
    mvp0 = {m: vp for m, vp in methods}
    sdef = dict(sdef)
    for m, d, vp in defs:      # styles that the method's kind or shape cannot carry fall back to the macro
        k = sdef.get((m, d), "plain")
        if k.startswith("api") and smeth.get(m, "free") == "static":
            sdef[(m, d)] = "plain"
        # (a member function cannot take a virtual_ptr by value: the thunk of add_member_function turns every parameter
        # into a forwarding reference, and virtual_ptr<..>&& is not a parameter form the library knows -- see DESIGN.md 12)
        if k == "member" and (shape_of(m, mvp0[m])[0] != "W" or not set(shape_of(m, mvp0[m])[1:]) <= set("VN") or smeth.get(m, "free") == "static"):
            sdef[(m, d)] = "plain"
    members = {}
    for m, d, vp in defs:
        if sdef.get((m, d)) == "member":
            members.setdefault(vp[0], []).append((m, d, vp))
    over_len = {}
    for m, vp in methods:     # an overloaded name is usable once per parameter count
        if smeth.get(m) == "over":
            n = len(shape_of(m, vp))
            if n in over_len:
                smeth = dict(smeth); smeth[m] = "free"
            else:
                over_len[n] = m

    def mname(m):
        k = smeth.get(m, "free")
        return "H%d::m%d" % (m, m) if k == "static" else ("mo" if k == "over" else "m%d" % m)
    """statements: list of lists of classes (each one register_classes(...)); methods: [(m, vp)];
    defs: [(m, d, vp)].  Precondition (C08): every direct edge has both ends in some statement."""
    anc = anc_closure(edges, classes)
    direct = {c: sorted(b for d, b in edges if d == c) for c in classes}
    # a base reached along two different paths must be a virtual base
    multi = any(len([p for p in direct[c] if b in anc[p]]) > 1 for c in classes for b in anc[c] if b != c)
    virt = "virtual " if multi else ""
    ns = "g%d" % idx
    o = ["namespace %s {" % ns]
    o.append(" ".join("struct K%d;" % c for c in classes))
    o.append(" ".join("using VP%d = virtual_ptr<K%d%s>;" % (c, c, polarg) for c in classes))
    o.append(" ".join("using SP%d = std::shared_ptr<K%d>; using VSP%d = virtual_shared_ptr<K%d%s>;" % (c, c, c, c, polarg) for c in classes))
    for c in classes:   # classes are numbered so that bases come first
        bases = ", ".join("%spublic K%d" % (virt, b) for b in direct[c])
        # abstract classes are really abstract (is_abstract comes from std::is_abstract_v); every class says what it
        # does about the pure function, so that the concrete ones are instantiable whatever their bases
        pure = "virtual void pure%d() = 0;" % idx if c in abstract else "virtual void pure%d() {}" % idx
        mf = " ".join("int mf%d_%d(%s);" % (m, d, _dparams(shape_of(m, mvp0[m]), vp, pol, True)) for m, d, vp in members.get(c, []))
        ids = ""
        if pol in CUSTOM_IDS:
            ids = "inline static std::size_t kid = %s; virtual std::size_t vid() const { return kid; }" % (kid_of(pol, c) if pol != 4 else "0")
        o.append("struct K%d%s { int tag%d = %d; virtual ~K%d() {} %s %s %s };" % (c, (" : " + bases) if bases else "", c, c, c, pure, mf, ids))
    # registration statements: before the methods and definitions, or (late_reg) after them -- the order of appearance in
    # the translation unit is the order in which the registration objects are constructed
    regs = []
    for i, st in enumerate(statements):
        k = sreg.get(i, "classes")
        if k == "classes":
            regs.append("register_classes(%s%s);" % (", ".join("K%d" % c for c in st), polarg))
        elif k == "use":
            regs.append("yorel::yomm2::use_classes<%s%s> YOMM2_GENSYM;" % (", ".join("K%d" % c for c in st), polarg))
        elif k == "nested":
            # the statement cut into consecutive types<> lists (the caller has put it in the order it wants)
            cuts = style.get("cuts", {}).get(i) or [len(st) // 2]
            parts, prev = [], 0
            for cpos in list(cuts) + [len(st)]:
                if cpos > prev:
                    parts.append(st[prev:cpos])
                    prev = cpos
            regs.append("register_classes(%s%s);" % (", ".join("yorel::yomm2::detail::types<%s>" % ", ".join("K%d" % c for c in part) for part in parts), polarg))
        else:
            for c in st:
                regs.append("yorel::yomm2::class_declaration<yorel::yomm2::detail::types<%s%s>> YOMM2_GENSYM;" %
                         (", ".join("K%d" % x for x in [c] + [b for b in st if b in anc[c] and b != c]), polarg))
    if not style.get("late_reg"):
        o.extend(regs)
    mvp = {m: vp for m, vp in methods}
    for m, vp in methods:
        k = smeth.get(m, "free")
        if k == "static":
            o.append("struct H%d { declare_static_method(int, m%d, (%s)%s); };" % (m, m, _mparams(shape_of(m, vp), vp, pol), polarg))
        else:
            o.append("declare_method(int, %s, (%s)%s);" % (mname(m), _mparams(shape_of(m, vp), vp, pol), polarg))
        kinds = set(sdef.get((mm, d), "plain") for mm, d, _ in defs if mm == m)
        if kinds & {"box", "inline"}:
            o.append("method_container(box%d);" % m)
        if any(x.startswith("api") or x == "member" for x in kinds):
            o.append("using M%d = method_class(int, %s, (%s)%s);" % (m, mname(m), _mparams(shape_of(m, vp), vp, pol), polarg))
    for m, d, vp in defs:
        # a definition returns its number; when asked to, it forwards the call to next (macro front end)
        sh = shape_of(m, mvp[m])
        k = sdef.get((m, d), "plain")
        ps, fw = _dparams(sh, vp, pol), _fwd(sh)
        chk = _tagcheck(sh, vp)
        body = "{ if (!(%s)) return -77; if (g_via_next) { g_via_next = false; return next(%s); } return %d; }" % (chk, fw, d)
        if k in ("plain", "box", "inline"):
            head = {"plain": "define_method(int, %s, " % mname(m), "box": "define_method(box%d, int, %s, " % (m, mname(m)),
                    "inline": "define_method_inline(box%d, int, %s, " % (m, mname(m))}[k]
            o.append("%s(%s)) %s" % (head, ps, body))
        elif k in ("api_next", "api_use"):
            o.append("struct D%d_%d : M%d::%s<D%d_%d> { static int fn(%s) %s };" % (m, d, m, "next" if k == "api_next" else "use_next", m, d, ps, body))
            o.append("static M%d::add_definition<D%d_%d> YOMM2_GENSYM;" % (m, m, d))
        elif k == "api_own":
            o.append("struct D%d_%d { static M%d::next_type next; static int fn(%s) %s };" % (m, d, m, ps, body))
            o.append("M%d::next_type D%d_%d::next;" % (m, m, d))
            o.append("static M%d::add_definition<D%d_%d> YOMM2_GENSYM;" % (m, m, d))
        elif k == "api_plain":
            o.append("struct D%d_%d { static int fn(%s) { if (!(%s)) return -77; return %d; } };" % (m, d, ps, chk, d))
            o.append("static M%d::add_definition<D%d_%d> YOMM2_GENSYM;" % (m, m, d))
        elif k == "api_fun":
            o.append("static M%d::next_type nx%d_%d;" % (m, m, d))
            o.append("static int f%d_%d(%s) { if (!(%s)) return -77; if (g_via_next) { g_via_next = false; return nx%d_%d(%s); } return %d; }" % (m, d, ps, chk, m, d, fw, d))
            o.append("static M%d::add_function<f%d_%d> YOMM2_GENSYM(&nx%d_%d);" % (m, m, d, m, d))
        elif k == "api_fun0":
            o.append("static int f%d_%d(%s) { if (!(%s)) return -77; return %d; }" % (m, d, ps, chk, d))
            o.append("static M%d::add_function<f%d_%d> YOMM2_GENSYM;" % (m, m, d))
        elif k == "member":
            o.append("int K%d::mf%d_%d(%s) { return tag%d == %d ? %d : -77; }" % (vp[0], m, d, _dparams(sh, vp, pol, True), vp[0], vp[0], d))
            o.append("static M%d::add_member_function<&K%d::mf%d_%d> YOMM2_GENSYM;" % (m, vp[0], m, d))

    def callee(m, vp):
        if scall.get(m) == "class" and smeth.get(m, "free") == "free":
            return "method_class(int, m%d, (%s)%s)::fn" % (m, _mparams(shape_of(m, vp), vp, pol), polarg)
        return mname(m)
    # twin: the same classes and (for methods whose signature does not name the policy) the SAME definition functions registered
    # in a second policy as well: what one policy holds must not depend on what the other one registered
    twin = style.get("twin") if pol == 0 else None
    tw_methods = [(m, vp) for m, vp in methods if twin and set(shape_of(m, vp)) <= set("VWN") and smeth.get(m, "free") != "static"]
    tw_defs = [(m, d, vp) for m, d, vp in defs if any(m == tm for tm, _ in tw_methods) and sdef.get((m, d), "plain") in ("api_fun", "api_fun0")]
    if twin:
        targ = ", " + POLS[twin]
        o.append("register_classes(%s%s);" % (", ".join("K%d" % c for c in classes), targ))
        for m, vp in tw_methods:
            o.append("declare_method(int, mt%d, (%s)%s);" % (m, _mparams(shape_of(m, vp), vp, 0), targ))
            o.append("using MT%d = method_class(int, mt%d, (%s)%s);" % (m, m, _mparams(shape_of(m, vp), vp, 0), targ))
        for m, d, vp in tw_defs:
            o.append("static MT%d::add_function<f%d_%d> YOMM2_GENSYM;" % (m, m, d))
    if style.get("late_reg"):
        o.extend(regs)
    o.append("void run() {")
    if pol == 4:     # deferred ids: known only now
        for c in classes:
            o.append("    K%d::kid = %s;" % (c, kid_of(pol, c)))
    r = 0
    cls_events = []
    for i, st in enumerate(statements):
        for c in st:
            r += 1
            listed = [b for b in st if b in anc[c]]     # what inheritance_map keeps: the classes of the statement that are bases of c (itself included)
            if sreg.get(i, "classes") == "decl":
                listed = [b for b in listed if b != c]
            cls_events.append('    std::printf("{\\"e\\":\\"class\\",\\"p\\":%d,\\"r\\":%d,\\"c\\":%d,\\"bases\\":%s,\\"abs\\":%s}\\n");' %
                     (pol, idx * 1000 + r, c, str(listed).replace(" ", ""), "true" if c in abstract else "false"))
    if not style.get("late_reg"):
        o.extend(cls_events)
    for m, vp in methods:
        # so: is the method compiled with generated static offsets (1 / 0; -1: not asked, the method class of a static method
        # has no spelling through method_class)
        so = "-1" if smeth.get(m, "free") == "static" else \
            "(int)yorel::yomm2::detail::has_static_offsets<method_class(int, %s, (%s)%s)>::value" % (mname(m), _mparams(shape_of(m, vp), vp, pol), polarg)
        o.append('    std::printf("{\\"e\\":\\"method\\",\\"p\\":%d,\\"m\\":%d,\\"shape\\":\\"%s\\",\\"vp\\":%s,\\"so\\":%%d}\\n", %s);' %
                 (pol, idx * 100 + m, shape_of(m, vp), str(list(vp)).replace(" ", ""), so))
        if smeth.get(m, "free") != "static":
            # a program built with the generated slots.hpp in which a method of the policy has no generated offsets: an event the
            # specification has no action for ("for every method ... the slots and strides written by the generator")
            o.append("#if defined(VERIF_STAGE) && (VERIF_STAGE == 2 || VERIF_STAGE == 3)")
            o.append('    if (!(%s)) std::printf("{\\"e\\":\\"no_static_offsets\\",\\"p\\":%d,\\"m\\":%d}\\n");' % (so, pol, idx * 100 + m))
            o.append("#endif")
    for m, d, vp in defs:
        o.append('    std::printf("{\\"e\\":\\"def\\",\\"p\\":%d,\\"m\\":%d,\\"d\\":%d,\\"vp\\":%s}\\n");' %
                 (pol, idx * 100 + m, d, str(list(vp)).replace(" ", "")))
    if style.get("late_reg"):
        o.extend(cls_events)
    if twin:
        for i, c in enumerate(classes):
            o.append('    std::printf("{\\"e\\":\\"class\\",\\"p\\":%d,\\"r\\":%d,\\"c\\":%d,\\"bases\\":%s,\\"abs\\":%s}\\n");' %
                     (twin, idx * 1000 + 800 + i, c, str([b for b in classes if b in anc[c]]).replace(" ", ""), "true" if c in abstract else "false"))
        for m, vp in tw_methods:
            o.append('    std::printf("{\\"e\\":\\"method\\",\\"p\\":%d,\\"m\\":%d,\\"shape\\":\\"%s\\",\\"vp\\":%s,\\"so\\":-1}\\n");' %
                     (twin, idx * 100 + 50 + m, shape_of(m, vp), str(list(vp)).replace(" ", "")))
        for m, d, vp in tw_defs:
            o.append('    std::printf("{\\"e\\":\\"def\\",\\"p\\":%d,\\"m\\":%d,\\"d\\":%d,\\"vp\\":%s}\\n");' %
                     (twin, idx * 100 + 50 + m, d, str(list(vp)).replace(" ", "")))
    o.append("}")
    # registration objects that come and go at run time (a library loaded, unloaded and loaded again): further records for
    # classes that are registered already, held in optionals
    dyn = style.get("dyn", [])
    for j, st in enumerate(dyn):
        o.append("static std::optional<yorel::yomm2::use_classes<%s%s>> dynreg%d;" % (", ".join("K%d" % c for c in st), polarg, j))
    o.append("void load() {")
    for j, st in enumerate(dyn):
        o.append("    dynreg%d.emplace();" % j)
        for i, c in enumerate(st):
            listed = [b for b in st if b in anc[c]]
            o.append('    std::printf("{\\"e\\":\\"class\\",\\"p\\":%d,\\"r\\":%d,\\"c\\":%d,\\"bases\\":%s,\\"abs\\":%s}\\n");' %
                     (pol, idx * 1000 + 500 + 20 * j + i, c, str(listed).replace(" ", ""), "true" if c in abstract else "false"))
    o.append("}")
    o.append("void unload() {")
    for j, st in enumerate(dyn):
        o.append("    dynreg%d.reset();" % j)
        for i, c in enumerate(st):
            o.append('    std::printf("{\\"e\\":\\"unclass\\",\\"p\\":%d,\\"r\\":%d}\\n");' % (pol, idx * 1000 + 500 + 20 * j + i))
    o.append("}")
    o.append("void tables() {")
    concrete = [c for c in classes if c not in abstract]
    for c in concrete:
        o.append("    auto s%d = std::make_shared<K%d>(); K%d& o%d = *s%d;" % (c, c, c, c, c))
    if pol in CUSTOM_IDS:
        o.append("    const std::size_t tis[] = {%s};" % ", ".join("K%d::kid" % c for c in classes))
    else:
        o.append("    const std::type_info* tis[] = {%s};" % ", ".join("&typeid(K%d)" % c for c in classes))
    o.append("    const int nums[] = {%s};" % ", ".join(str(c) for c in classes))
    o.append("    auto cls = [&](yorel::yomm2::type_id id) { for (std::size_t i = 0; i < sizeof(nums) / sizeof(int); ++i) if ((yorel::yomm2::type_id)(tis[i]) == id) return nums[i]; return -1; };")
    for m, vp in methods:
        o.append('    { std::string rows;')
        cov = [[x for x in concrete if v in anc[x]] for v in vp]
        import itertools
        for t in itertools.product(*cov):
            args = _args(shape_of(m, vp), vp, t, pol, idx + m)
            o.append('      { g_err = ErrRec(); int o = call([&] { return %s(%s); }); rows += (rows.empty() ? "" : ",") + std::string("[%s,") + std::to_string(o) + "," + (o >= 0 ? std::string("[]") : err_json(cls)) + "]"; }' %
                     (callee(m, vp), args, str(list(t)).replace(" ", "")))
        o.append('      std::printf("{\\"e\\":\\"ctable\\",\\"p\\":%d,\\"m\\":%d,\\"shape\\":\\"%s\\",\\"concrete\\":true,\\"rows\\":[%%s]}\\n", rows.c_str()); }' %
                 (pol, idx * 100 + m, shape_of(m, vp)))
    # what next refers to inside every definition: call the method with objects of exactly the definition's
    # classes (the definition itself is selected) and let it forward to next
    for m, vp in methods:
        mdefs = [(d, dvp) for mm, d, dvp in defs if mm == m and all(x not in abstract for x in dvp) and sdef.get((m, d), "plain") in CAN_FORWARD]
        o.append('    { std::string rows;')
        for d, dvp in mdefs:
            args = _args(shape_of(m, vp), vp, dvp, pol, idx + m + 1)
            o.append('      { g_via_next = true; int o = call([&] { return %s(%s); }); g_via_next = false; rows += (rows.empty() ? "" : ",") + std::string("[%d,") + std::to_string(o) + "," + std::to_string(o) + "]"; }' % (callee(m, vp), args, d))
        skipped = [d for mm, d, dvp in defs if mm == m and all(x not in abstract for x in dvp) and sdef.get((m, d), "plain") not in CAN_FORWARD]
        o.append('      std::printf("{\\"e\\":\\"next\\",\\"p\\":%d,\\"m\\":%d,\\"concrete\\":true,\\"skip\\":%s,\\"rows\\":[%%s]}\\n", rows.c_str()); }' % (pol, idx * 100 + m, str(skipped).replace(" ", "")))
    if twin:
        import itertools as _it
        for m, vp in tw_methods:
            o.append('    { std::string rows;')
            cov = [[x for x in concrete if v in anc[x]] for v in vp]
            for t in _it.product(*cov):
                args = _args(shape_of(m, vp), vp, t, 0, idx + m)
                o.append('      { g_err = ErrRec(); int o = call([&] { return mt%d(%s); }); rows += (rows.empty() ? "" : ",") + std::string("[%s,") + std::to_string(o) + "," + (o >= 0 ? std::string("[]") : err_json(cls)) + "]"; }' %
                         (m, args, str(list(t)).replace(" ", "")))
            o.append('      std::printf("{\\"e\\":\\"ctable\\",\\"p\\":%d,\\"m\\":%d,\\"shape\\":\\"%s\\",\\"concrete\\":true,\\"rows\\":[%%s]}\\n", rows.c_str()); }' %
                     (twin, idx * 100 + 50 + m, shape_of(m, vp)))
    o.append("}")
    o.append("} // namespace")
    return "\n".join(o)


COMMON = r'''
#include <yorel/yomm2/keywords.hpp>
#include <string>
#include <memory>
#include <optional>
#include <csignal>
#include <unistd.h>
static bool g_via_next = false;
struct ErrRec { int status = 0; std::size_t arity = 0; yorel::yomm2::type_id types[16] = {}; };
static ErrRec g_err;
template<class F> static int call(F f) {
    try { return f(); }
    catch (const yorel::yomm2::resolution_error& e) {
        g_err.status = (int)e.status; g_err.arity = e.arity;
        for (int i = 0; i < 16; ++i) g_err.types[i] = e.types[i];
        return e.status == yorel::yomm2::resolution_error::no_definition ? -1 : -2;
    }
}
template<class C> static std::string err_json(C cls) {
    std::string s = "[" + std::to_string(g_err.status) + "," + std::to_string(g_err.arity) + ",[";
    for (std::size_t i = 0; i < g_err.arity && i < 16; ++i) s += (i ? "," : "") + std::to_string(cls(g_err.types[i]));
    return s + "]]";
}
'''


CUSTOM_RTTI = r'''
template<class T, class = void> struct has_kid : std::false_type {};
template<class T> struct has_kid<T, std::void_t<decltype(T::kid)>> : std::true_type {};
template<class Base> struct kid_rtti : Base {
    template<typename T> static type_id static_type() { if constexpr (has_kid<T>::value) return T::kid; else return 0xFFFFFFu; }
    template<typename T> static type_id dynamic_type(const T& obj) { if constexpr (has_kid<T>::value) return obj.vid(); else return 0xFFFFFFu; }
    template<class Stream> static void type_name(type_id t, Stream& s) { s << "kid#" << t; }
    template<typename D, typename B> static D dynamic_cast_ref(B&& obj) { return dynamic_cast<D>(obj); }
};
struct vpol3 : policy::basic_policy<vpol3, kid_rtti<policy::rtti>, policy::fast_perfect_hash<vpol3>, policy::vptr_vector<vpol3>, policy::vectored_error<vpol3>> {};
struct vpol4 : policy::basic_policy<vpol4, kid_rtti<policy::deferred_static_rtti>, policy::vptr_map<vpol4>, policy::vectored_error<vpol4>> {};
struct vpol6 : policy::basic_policy<vpol6, kid_rtti<policy::rtti>, policy::fast_perfect_hash<vpol6>, policy::vptr_vector<vpol6>, policy::vectored_error<vpol6>> {};
struct vpol5 : policy::basic_policy<vpol5, policy::std_rtti, policy::fast_perfect_hash<vpol5>, policy::vptr_vector<vpol5>, policy::basic_indirect_vptr<vpol5>, policy::vectored_error<vpol5>> {};
'''


def _update_block(pols, staged):
    o = []
    for p in pols:
        if p:
            o.append("    %s::error = [](const yorel::yomm2::error_type& ev) {" % POLS[p])
            o.append("        if (auto e = std::get_if<yorel::yomm2::resolution_error>(&ev)) throw *e; };")
        o.append("    { auto comp = yorel::yomm2::update%s();" % (("<%s>" % POLS[p]) if p else ""))
        o.append("    std::size_t built = 0; for (auto& m : comp.methods) if (m.arity() > 1) built += m.dispatch_table.size();")
        o.append('    std::printf("{\\"e\\":\\"update\\",\\"p\\":%d,\\"res\\":\\"ok\\",\\"c\\":0,\\"rep\\":{\\"cells\\":%%zu,\\"concrete_cells\\":%%zu,\\"not_implemented\\":%%zu,"' % p)
        o.append('                "\\"concrete_not_implemented\\":%zu,\\"ambiguous\\":%zu,\\"concrete_ambiguous\\":%zu,\\"built\\":%zu}}\\n",')
        o.append("                comp.report.cells, comp.report.concrete_cells, comp.report.not_implemented, comp.report.concrete_not_implemented,")
        o.append("                comp.report.ambiguous, comp.report.concrete_ambiguous, built);")
        o.append("    }")
    return "\n".join(o)


def program(name, scenarios, staged=False):
    """All scenarios of one policy form one registry (class and method numbers are made distinct by the caller).
    staged: the source serves a two-stage build, selected by -DVERIF_STAGE=n (default policy scenarios only):
      1  generator: update, then write slots.hpp (write_static_offsets for the policy) and tables.hpp (encode_dispatch_data)
      2  application compiled with the generated slots.hpp, dispatch data built by update
      3  application compiled with slots.hpp whose dispatch data is installed by the generated tables.hpp (update never runs)
      4  application without static offsets whose dispatch data is installed by tables.hpp"""
    o = [gen.PRELUDE, COMMON]
    pols = sorted(set(((sc[8] if len(sc) > 8 and sc[8] else {}).get("pol", 0)) for sc in scenarios) |
                  set(sc[8]["twin"] for sc in scenarios if len(sc) > 8 and sc[8] and sc[8].get("twin") and sc[8].get("pol", 0) == 0))
    if staged:
        assert pols == [0]
        o.append("#include <fstream>\n#include <yorel/yomm2/generator.hpp>\n#include <yorel/yomm2/decode.hpp>")
    o.append("struct vpol1 : default_policy::rebind<vpol1> {};")
    o.append("struct vpol2 : policy::basic_policy<vpol2, policy::std_rtti, policy::vptr_map<vpol2>, policy::vectored_error<vpol2>> {};")
    base6 = [min(sc[1]) for sc in scenarios if (sc[8] if len(sc) > 8 and sc[8] else {}).get("pol", 0) == 6]
    o.append("#define VPOL6_BASE %d" % (min(base6) if base6 else 0))
    o.append(CUSTOM_RTTI)
    if not staged:
        for sc in scenarios:
            o.append(scenario(*sc))
    else:
        # declarations first, then the generated offsets, then the functions that call the methods
        parts = [scenario(*sc).split("void run() {", 1) for sc in scenarios]
        for sc, (decl, _) in zip(scenarios, parts):
            o.append(decl + "} // namespace (declarations)")
        o.append("#if VERIF_STAGE == 2 || VERIF_STAGE == 3\n#include \"slots.hpp\"\n#endif")
        for sc, (_, fns) in zip(scenarios, parts):
            o.append("namespace g%d {\nvoid run() {%s" % (sc[0], fns))
    o.append("int main() {")
    # line-buffered log, and a last word when the program dies: the trace then shows where
    o.append("    std::setvbuf(stdout, nullptr, _IOLBF, 1 << 16);")
    o.append("    for (int sig : {SIGSEGV, SIGABRT, SIGBUS, SIGFPE}) std::signal(sig, [](int s) {")
    o.append('        char m[] = "{\\"e\\":\\"died\\",\\"sig\\":00}\\n"; m[18] = char(48 + s / 10); m[19] = char(48 + s % 10);')
    o.append("        if (write(1, m, sizeof m - 1)) {} _exit(128 + s); });")
    if staged:
        o.append('    std::printf("{\\"e\\":\\"reset\\",\\"script\\":\\"%s.s%%d\\",\\"bindings\\":[\\"gen\\"]}\\n", VERIF_STAGE);' % name)
    else:
        o.append('    std::printf("{\\"e\\":\\"reset\\",\\"script\\":\\"%s\\",\\"bindings\\":[\\"gen\\"]}\\n");' % name)
    o.append("    yorel::yomm2::set_error_handler([](const yorel::yomm2::error_type& ev) {")
    o.append("        if (auto e = std::get_if<yorel::yomm2::resolution_error>(&ev)) throw *e; });")
    for sc in scenarios:
        o.append("    g%d::run();" % sc[0])
    if staged:
        o.append("#if VERIF_STAGE >= 3")
        o.append("    {")
        o.append('#include "tables.hpp"')
        o.append("    }")
        o.append('    std::puts("{\\"e\\":\\"installed\\",\\"p\\":0,\\"from\\":\\"tables.hpp\\"}");')
        o.append("#else")
    for p in pols:
        if p:
            o.append("    %s::error = [](const yorel::yomm2::error_type& ev) {" % POLS[p])
            o.append("        if (auto e = std::get_if<yorel::yomm2::resolution_error>(&ev)) throw *e; };")
        o.append("    { auto comp = yorel::yomm2::update%s();" % (("<%s>" % POLS[p]) if p else ""))
        o.append("    std::size_t built = 0; for (auto& m : comp.methods) if (m.arity() > 1) built += m.dispatch_table.size();")
        o.append('    std::printf("{\\"e\\":\\"update\\",\\"p\\":%d,\\"res\\":\\"ok\\",\\"c\\":0,\\"rep\\":{\\"cells\\":%%zu,\\"concrete_cells\\":%%zu,\\"not_implemented\\":%%zu,"' % p)
        o.append('                "\\"concrete_not_implemented\\":%zu,\\"ambiguous\\":%zu,\\"concrete_ambiguous\\":%zu,\\"built\\":%zu}}\\n",')
        o.append("                comp.report.cells, comp.report.concrete_cells, comp.report.not_implemented, comp.report.concrete_not_implemented,")
        o.append("                comp.report.ambiguous, comp.report.concrete_ambiguous, built);")
        if staged:
            o.append("#if VERIF_STAGE == 1")
            o.append('    { std::ofstream f("slots.hpp"); yorel::yomm2::generator().write_static_offsets<YOMM2_DEFAULT_POLICY>(f); }')
            o.append('    { std::ofstream f("tables.hpp"); yorel::yomm2::generator::encode_dispatch_data(comp, f); }')
            o.append("#endif")
        o.append("    }")
    if staged:
        o.append("#endif")
    for sc in scenarios:
        o.append("    g%d::tables();" % sc[0])
    has_dyn = any((sc[8] if len(sc) > 8 and sc[8] else {}).get("dyn") for sc in scenarios)
    if has_dyn and not staged:
        for phase in ("load", "unload", "load"):
            for sc in scenarios:
                o.append("    g%d::%s();" % (sc[0], phase))
            o.append("__UPDATE_BLOCK__")
            for sc in scenarios:
                o.append("    g%d::tables();" % sc[0])
    o.append('    std::puts("{\\"e\\":\\"end\\"}");')
    o.append("    return 0;")
    o.append("}")
    return "\n".join(o).replace("__UPDATE_BLOCK__", _update_block(pols, staged))
