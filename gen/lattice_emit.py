"""Emitter for C08 / C01 with real classes: the inheritance graph is a real C++ hierarchy (virtual
inheritance where a base is reached along two paths), registered through register_classes /
use_classes statements that split it in arbitrary ways; the log uses the event vocabulary of the dyn
harness and is validated by TraceYomm2."""
import os
import sys
sys.path.insert(0, os.path.join(os.path.dirname(os.path.dirname(os.path.abspath(__file__))), "lib"))
import gen


def anc_closure(edges, classes):
    direct = {c: set() for c in classes}
    for d, b in edges:
        direct[d].add(b)
    anc = {}

    def up(c):
        if c not in anc:
            s = {c}
            for b in direct[c]:
                s |= up(b)
            anc[c] = s
        return anc[c]
    for c in classes:
        up(c)
    return anc


def _mparams(shape, vp):
    """declared parameter list of a method: shape over V virtual_<K&>, W virtual_<K*>, P virtual_ptr<K>, N int"""
    out, vi = [], 0
    for ch in shape:
        if ch == "N":
            out.append("int")
        else:
            k = vp[vi]
            vi += 1
            out.append({"V": "virtual_<K%d&>", "W": "virtual_<K%d*>", "P": "virtual_ptr<K%d>"}[ch] % k)
    return ", ".join(out)


def _dparams(shape, dvp):
    out, vi = [], 0
    for i, ch in enumerate(shape):
        if ch == "N":
            out.append("int n%d" % i)
        else:
            k = dvp[vi]
            vi += 1
            out.append({"V": "K%d& a%d", "W": "K%d* a%d", "P": "virtual_ptr<K%d> a%d"}[ch] % (k, i))
    return ", ".join(out)


def _fwd(shape):
    return ", ".join(("n%d" if ch == "N" else "a%d") % i for i, ch in enumerate(shape))


def _args(shape, vp, t):
    """call arguments for objects o<class> of dynamic classes t, statically typed as the method's classes vp"""
    out, vi = [], 0
    for i, ch in enumerate(shape):
        if ch == "N":
            out.append(str(100 + i))
            continue
        v, x = vp[vi], t[vi]
        vi += 1
        ref = "static_cast<K%d&>(o%d)" % (v, x)
        out.append({"V": ref, "W": "&" + ref, "P": "virtual_ptr<K%d>(%s)" % (v, ref)}[ch])
    return ", ".join(out)


def scenario(idx, classes, edges, statements, methods, defs, abstract=(), shapes=None):
    """methods: [(m, vp)]; shapes: optional dict m -> shape string (default: all virtual_<K&>)"""
    shapes = shapes or {}
    shape_of = lambda m, vp: shapes.get(m, "V" * len(vp))
    """statements: list of lists of classes (each one register_classes(...)); methods: [(m, vp)];
    defs: [(m, d, vp)].  Precondition (C08): every direct edge has both ends in some statement."""
    anc = anc_closure(edges, classes)
    direct = {c: sorted(b for d, b in edges if d == c) for c in classes}
    # a base reached along two different paths must be a virtual base
    multi = any(len([p for p in direct[c] if b in anc[p]]) > 1 for c in classes for b in anc[c] if b != c)
    virt = "virtual " if multi else ""
    ns = "g%d" % idx
    o = ["namespace %s {" % ns]
    for c in classes:   # classes are numbered so that bases come first
        bases = ", ".join("%spublic K%d" % (virt, b) for b in direct[c])
        # abstract classes are really abstract (is_abstract comes from std::is_abstract_v); every class says what it
        # does about the pure function, so that the concrete ones are instantiable whatever their bases
        pure = "virtual void pure%d() = 0;" % idx if c in abstract else "virtual void pure%d() {}" % idx
        o.append("struct K%d%s { int tag%d = %d; virtual ~K%d() {} %s };" % (c, (" : " + bases) if bases else "", c, c, c, pure))
    for st in statements:
        o.append("register_classes(%s);" % ", ".join("K%d" % c for c in st))
    mvp = {m: vp for m, vp in methods}
    for m, vp in methods:
        o.append("declare_method(int, m%d, (%s));" % (m, _mparams(shape_of(m, vp), vp)))
    for m, d, vp in defs:
        # a definition returns its number; when asked to, it forwards the call to next (macro front end)
        sh = shape_of(m, mvp[m])
        o.append("define_method(int, m%d, (%s)) { if (g_via_next) { g_via_next = false; return next(%s); } return %d; }" %
                 (m, _dparams(sh, vp), _fwd(sh), d))
    o.append("void run() {")
    r = 0
    for st in statements:
        for c in st:
            r += 1
            listed = [b for b in st if b in anc[c]]     # what inheritance_map keeps: the classes of the statement that are bases of c (itself included)
            o.append('    std::printf("{\\"e\\":\\"class\\",\\"p\\":0,\\"r\\":%d,\\"c\\":%d,\\"bases\\":%s,\\"abs\\":%s}\\n");' %
                     (idx * 1000 + r, c, str(listed).replace(" ", ""), "true" if c in abstract else "false"))
    for m, vp in methods:
        o.append('    std::printf("{\\"e\\":\\"method\\",\\"p\\":0,\\"m\\":%d,\\"shape\\":\\"%s\\",\\"vp\\":%s}\\n");' %
                 (idx * 100 + m, shape_of(m, vp), str(list(vp)).replace(" ", "")))
    for m, d, vp in defs:
        o.append('    std::printf("{\\"e\\":\\"def\\",\\"p\\":0,\\"m\\":%d,\\"d\\":%d,\\"vp\\":%s}\\n");' %
                 (idx * 100 + m, d, str(list(vp)).replace(" ", "")))
    o.append("}")
    o.append("void tables() {")
    concrete = [c for c in classes if c not in abstract]
    for c in concrete:
        o.append("    K%d o%d;" % (c, c))
    o.append("    const std::type_info* tis[] = {%s};" % ", ".join("&typeid(K%d)" % c for c in classes))
    o.append("    const int nums[] = {%s};" % ", ".join(str(c) for c in classes))
    o.append("    auto cls = [&](yorel::yomm2::type_id id) { for (std::size_t i = 0; i < sizeof(nums) / sizeof(int); ++i) if (reinterpret_cast<yorel::yomm2::type_id>(tis[i]) == id) return nums[i]; return -1; };")
    for m, vp in methods:
        o.append('    { std::string rows;')
        cov = [[x for x in concrete if v in anc[x]] for v in vp]
        import itertools
        for t in itertools.product(*cov):
            args = _args(shape_of(m, vp), vp, t)
            o.append('      { g_err = ErrRec(); int o = call([&] { return m%d(%s); }); rows += (rows.empty() ? "" : ",") + std::string("[%s,") + std::to_string(o) + "," + (o >= 0 ? std::string("[]") : err_json(cls)) + "]"; }' %
                     (m, args, str(list(t)).replace(" ", "")))
        o.append('      std::printf("{\\"e\\":\\"ctable\\",\\"p\\":0,\\"m\\":%d,\\"shape\\":\\"%s\\",\\"concrete\\":true,\\"rows\\":[%%s]}\\n", rows.c_str()); }' %
                 (idx * 100 + m, shape_of(m, vp)))
    # what next refers to inside every definition: call the method with objects of exactly the definition's
    # classes (the definition itself is selected) and let it forward to next
    for m, vp in methods:
        mdefs = [(d, dvp) for mm, d, dvp in defs if mm == m and all(x not in abstract for x in dvp)]
        o.append('    { std::string rows;')
        for d, dvp in mdefs:
            args = _args(shape_of(m, vp), vp, dvp)
            o.append('      { g_via_next = true; int o = call([&] { return m%d(%s); }); g_via_next = false; rows += (rows.empty() ? "" : ",") + std::string("[%d,") + std::to_string(o) + "," + std::to_string(o) + "]"; }' % (m, args, d))
        o.append('      std::printf("{\\"e\\":\\"next\\",\\"p\\":0,\\"m\\":%d,\\"concrete\\":true,\\"rows\\":[%%s]}\\n", rows.c_str()); }' % (idx * 100 + m))
    o.append("}")
    o.append("} // namespace")
    return "\n".join(o)


COMMON = r'''
#include <yorel/yomm2/keywords.hpp>
#include <string>
static bool g_via_next = false;
struct ErrRec { int status = 0; std::size_t arity = 0; yorel::yomm2::type_id types[16] = {}; };
static ErrRec g_err;
template<class F> static int call(F f) {
    try { return f(); }
    catch (const yorel::yomm2::resolution_error& e) {
        g_err.status = (int)e.status; g_err.arity = e.arity;
        for (int i = 0; i < 16; ++i) g_err.types[i] = e.types[i];
        return e.status == yorel::yomm2::resolution_error::no_definition ? -1 : -2;
    }
}
template<class C> static std::string err_json(C cls) {
    std::string s = "[" + std::to_string(g_err.status) + "," + std::to_string(g_err.arity) + ",[";
    for (std::size_t i = 0; i < g_err.arity && i < 16; ++i) s += (i ? "," : "") + std::to_string(cls(g_err.types[i]));
    return s + "]]";
}
'''


def program(name, scenarios):
    """All scenarios of a program share the default policy: their classes, methods and definitions form
    one registry (class and method numbers are made distinct by the caller)."""
    o = [gen.PRELUDE, COMMON]
    for sc in scenarios:
        o.append(scenario(*sc))
    o.append("int main() {")
    o.append('    std::printf("{\\"e\\":\\"reset\\",\\"script\\":\\"%s\\",\\"bindings\\":[\\"gen\\"]}\\n");' % name)
    o.append("    yorel::yomm2::set_error_handler([](const yorel::yomm2::error_type& ev) {")
    o.append("        if (auto e = std::get_if<yorel::yomm2::resolution_error>(&ev)) throw *e; });")
    for sc in scenarios:
        o.append("    g%d::run();" % sc[0])
    o.append("    auto comp = yorel::yomm2::update();")
    o.append("    std::size_t built = 0; for (auto& m : comp.methods) if (m.arity() > 1) built += m.dispatch_table.size();")
    o.append('    std::printf("{\\"e\\":\\"update\\",\\"p\\":0,\\"res\\":\\"ok\\",\\"c\\":0,\\"rep\\":{\\"cells\\":%zu,\\"concrete_cells\\":%zu,\\"not_implemented\\":%zu,"')
    o.append('                "\\"concrete_not_implemented\\":%zu,\\"ambiguous\\":%zu,\\"concrete_ambiguous\\":%zu,\\"built\\":%zu}}\\n",')
    o.append("                comp.report.cells, comp.report.concrete_cells, comp.report.not_implemented, comp.report.concrete_not_implemented,")
    o.append("                comp.report.ambiguous, comp.report.concrete_ambiguous, built);")
    for sc in scenarios:
        o.append("    g%d::tables();" % sc[0])
    o.append('    std::puts("{\\"e\\":\\"end\\"}");')
    o.append("    return 0;")
    o.append("}")
    return "\n".join(o)
