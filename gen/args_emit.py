"""Emitter for C11: one namespace per scenario (kind, shape, pos, cat); the macro front end
(declare_method / define_method / register_classes), thunks and casts are the library's."""
import sys
import os
sys.path.insert(0, os.path.join(os.path.dirname(os.path.dirname(os.path.abspath(__file__))), "lib"))
import gen

COMMON = r'''
#include <yorel/yomm2/keywords.hpp>
#include <memory>
struct Tracked {
    int v;
    static int copies, moves;
    explicit Tracked(int v) : v(v) {}
    Tracked(const Tracked& o) : v(o.v) { ++copies; }
    Tracked(Tracked&& o) noexcept : v(o.v) { o.v = -1; ++moves; }
    Tracked& operator=(const Tracked&) = delete;
};
int Tracked::copies = 0;
int Tracked::moves = 0;
struct Report {
    bool ran = false, self_ok = false, oid_ok = false, owner_ok = true, nv_ok = false;
    int copies = -1, moves = -1;
};
static Report g_rep;
static Tracked g_ret(99);
static const void* g_nv_addr = nullptr;
static std::shared_ptr<void> g_owner;
template<class A, class B> static bool same_owner(const std::shared_ptr<A>& a, const std::shared_ptr<B>& b) {
    return !a.owner_before(b) && !b.owner_before(a);
}
static void print_report(const char* kind, const char* shape, int pos, const char* cat, const char* ret, bool ret_ok) {
    std::printf("{\"e\":\"args\",\"sc\":{\"kind\":\"%s\",\"shape\":\"%s\",\"pos\":%d,\"cat\":\"%s\",\"ret\":\"%s\"},\"ran\":%s,"
                "\"r\":{\"self_ok\":%s,\"oid_ok\":%s,\"owner_ok\":%s,\"nv_ok\":%s,\"ret_ok\":%s,\"copies\":%d,\"moves\":%d,\"rcopies\":%d}}\n",
                kind, shape, pos, cat, ret, g_rep.ran ? "true" : "false", g_rep.self_ok ? "true" : "false", g_rep.oid_ok ? "true" : "false",
                g_rep.owner_ok ? "true" : "false", g_rep.nv_ok ? "true" : "false", ret_ok ? "true" : "false", g_rep.copies, g_rep.moves,
                g_rep.ran ? Tracked::copies - g_rep.copies : -1);
}
'''

SHAPES = {
    # D's definition given B; every class records its own address at construction
    "same": ("", None),
    "single": ("struct D : B { const void* self_D; int dd = 4; D() : self_D(this) {} };", "D"),
    "second": ("struct Pad { virtual ~Pad() {} long pad[3] = {1, 2, 3}; };\n"
               "struct D : Pad, B { const void* self_D; int dd = 4; D() : self_D(this) {} };", "D"),
    "virtual": ("struct D : virtual B { const void* self_D; int dd = 4; D() : self_D(this) {} };", "D"),
    "two": ("struct Mid : B { long mm[2] = {5, 6}; };\n"
            "struct Pad2 { virtual ~Pad2() {} long pad = 9; };\n"
            "struct D : Pad2, Mid { const void* self_D; int dd = 4; D() : self_D(this) {} };", "D"),
}

KINDS = {
    # kind: (method parameter, definition parameter type pattern, how to get a D& inside the definition, caller expression)
    "ref": ("virtual_<B&>", "{D}&", "a", "b"),
    "rref": ("virtual_<B&&>", "{D}&&", "a", "static_cast<B&&>(b)"),
    "ptr": ("virtual_<B*>", "{D}*", "*a", "&b"),
    "shared": ("virtual_<std::shared_ptr<B>>", "std::shared_ptr<{D}>", "*a", "sp"),
    "cshared": ("virtual_<const std::shared_ptr<B>&>", "const std::shared_ptr<{D}>&", "*a", "sp"),
    "vptr": ("virtual_ptr<B>", "virtual_ptr<{D}>", "*a", "virtual_ptr<B>(b)"),
    "vshared": ("virtual_shared_ptr<B>", "virtual_shared_ptr<{D}>", "*a", "virtual_shared_ptr<B>(sp)"),
    # the same two passed by const reference (the library has traits for const virtual_ptr<..>&)
    "cvptr": ("const virtual_ptr<B>&", "const virtual_ptr<{D}>&", "*a", "vpb"),
    "cvshared": ("const virtual_shared_ptr<B>&", "const virtual_shared_ptr<{D}>&", "*a", "vspb"),
}
KIND_SETUP = {"cvptr": "virtual_ptr<B> vpb(b);", "cvshared": "virtual_shared_ptr<B> vspb(sp);"}

CATS = {
    # cat: (parameter type, check inside the definition, caller setup, caller argument)
    "val_l": ("Tracked", "nv.v == 7", "Tracked t(7);", "t"),
    "val_r": ("Tracked", "nv.v == 7", "", "Tracked(7)"),
    "lref": ("Tracked&", "&nv == g_nv_addr && nv.v == 7", "Tracked t(7); g_nv_addr = &t;", "t"),
    "clref": ("const Tracked&", "&nv == g_nv_addr && nv.v == 7", "Tracked t(7); g_nv_addr = &t;", "t"),
    "rref": ("Tracked&&", "&nv == g_nv_addr && nv.v == 7", "Tracked t(7); g_nv_addr = &t;", "std::move(t)"),
    "moveonly": ("std::unique_ptr<int>", "nv && *nv == 7", "", "std::make_unique<int>(7)"),
}


RETS = {
    # ret: (return type, return statement of the definition, caller statement computing `bool ok`)
    "val": ("std::string", 'return "ret-{i}";', 'std::string r = f({a}); ok = r == "ret-{i}";'),
    "void": ("void", "", "f({a}); ok = true;"),
    "ref": ("Tracked&", "return g_ret;", "Tracked& r = f({a}); ok = &r == &g_ret;"),
    "moveonly": ("std::unique_ptr<int>", "return std::make_unique<int>({i});", "std::unique_ptr<int> r = f({a}); ok = r && *r == {i};"),
    "tracked": ("Tracked", "return Tracked({i});", "Tracked r = f({a}); ok = r.v == {i};"),
    # covariant pointer: the method returns RB2*, the definition (attached through the core API: the macro would give it the
    # method's return type) returns RD2*, whose RB2 sub-object sits at a non-zero offset: the caller must get the adjusted pointer
    "covptr": ("RB2*", "return &g_rd2;", "RB2* r = f({a}); ok = r == static_cast<RB2*>(&g_rd2) && r->rb == 5;"),
}


def scenario(idx, kind, shape, pos, cat, ret="val"):
    ns = "a%d" % idx
    rtype, rstmt, rcall = RETS[ret]
    decl, dname = SHAPES[shape]
    D = dname or "B"
    mparam, dparam, deref, callexpr = KINDS[kind]
    nvtype, nvcheck, setup, nvarg = CATS[cat]
    dparam = dparam.replace("{D}", D)
    mparams = [nvtype, "int"]
    dparams = ["%s nv" % nvtype, "int x"]
    args = [nvarg, "41"]
    mparams.insert(pos, mparam)
    dparams.insert(pos, "%s a" % dparam)
    args.insert(pos, callexpr)
    shared = kind in ("shared", "cshared", "vshared", "cvshared")
    o = ["namespace %s {" % ns]
    o.append("struct B { const void* self_B; int oid = 0; B() : self_B(this) {} virtual ~B() {} };")
    if decl:
        o.append(decl)
    # E: a class derived from the definition's class, with enough members of its own to put a virtual base somewhere else:
    # the definition for D also serves objects of E, and must find ITS D sub-object
    o.append("struct EPad { virtual ~EPad() {} long epad[5] = {1, 2, 3, 4, 5}; };")
    o.append("struct E : EPad, %s { long ee[3] = {7, 8, 9}; };" % D)
    o.append("register_classes(%s);" % ", ".join(["B"] + (["D"] if dname else []) + (["Mid"] if shape == "two" else []) + ["E"]))
    if ret == "covptr":
        o.append("struct RB2 { virtual ~RB2() {} int rb = 5; }; struct RPad2 { virtual ~RPad2() {} long rp[2] = {1, 2}; };")
        o.append("struct RD2 : RPad2, RB2 { int rd = 6; }; static RD2 g_rd2;")
    o.append("declare_method(%s, f, (%s));" % (rtype, ", ".join(mparams)))
    if ret == "covptr":
        o.append("static RD2* fimpl(%s);" % ", ".join(dparams))
        o.append("static method_class(RB2*, f, (%s))::add_function<fimpl> YOMM2_GENSYM;" % ", ".join(mparams))
        o.append("static RD2* fimpl(%s) {" % ", ".join(dparams))
    else:
        o.append("define_method(%s, f, (%s)) {" % (rtype, ", ".join(dparams)))
    o.append("    g_rep.ran = true;")
    o.append("    g_rep.copies = Tracked::copies; g_rep.moves = Tracked::moves;")
    o.append("    %s& d = %s;" % (D, deref))
    o.append("    g_rep.self_ok = static_cast<const void*>(&d) == d.self_%s && static_cast<const void*>(static_cast<B*>(&d)) == d.self_B;" % D)
    o.append("    g_rep.oid_ok = d.oid == 1234 && x == 41;")
    if shared:
        getsp = "a" if kind not in ("vshared", "cvshared") else "a.get()"
        o.append("    g_rep.owner_ok = same_owner(%s, g_owner);" % getsp)
    o.append("    g_rep.nv_ok = %s;" % nvcheck)
    o.append("    " + rstmt.replace("{i}", str(idx)))
    o.append("}")
    for fn, dyn in (("run", D), ("run_e", "E")):
        o.append("void %s() {" % fn)
        o.append("    g_rep = Report();")
        if shared:
            o.append("    std::shared_ptr<%s> sd = std::make_shared<%s>(); sd->oid = 1234;" % (dyn, dyn))
            o.append("    std::shared_ptr<B> sp = sd; g_owner = sd;")
        else:
            o.append("    %s obj; obj.oid = 1234; B& b = obj;" % dyn)
        if kind in KIND_SETUP:
            o.append("    " + KIND_SETUP[kind])
        if setup:
            o.append("    " + setup)
        o.append("    Tracked::copies = 0; Tracked::moves = 0;")
        o.append("    bool ok = false;")
        o.append("    try { %s } catch (...) { }" % rcall.replace("{a}", ", ".join(args)).replace("{i}", str(idx)))
        o.append('    print_report("%s", "%s", %d, "%s", "%s", ok);' % (kind, shape, pos, cat, ret))
        o.append("    g_owner.reset();")
        o.append("}")
    o.append("} // namespace")
    return "\n".join(o)


def program(name, scenarios):
    o = [gen.PRELUDE, gen.PRELUDE_DEATH, COMMON]
    for idx, sc in scenarios:
        o.append(scenario(idx, *sc))
    o.append("int main() {")
    o.append(gen.MAIN_DEATH)
    o.append('    std::printf("{\\"e\\":\\"reset\\",\\"script\\":\\"%s\\",\\"bindings\\":[\\"gen\\"]}\\n");' % name)
    o.append("    yorel::yomm2::update();")
    for idx, _ in scenarios:
        o.append("    a%d::run();" % idx)
        o.append("    a%d::run_e();" % idx)    # then again with an object of a class derived from the definition's class
    o.append('    std::puts("{\\"e\\":\\"ok\\"}");')
    o.append("    return 0;")
    o.append("}")
    return "\n".join(o)
