"""C07 with real shared libraries: a main program and two plugins built from the same header; histories of
dlopen / dlclose / update are executed in one process, every update is followed by the outcome tables of
both methods over the classes registered at that moment.  Events use the vocabulary of TraceYomm2.
Classes: 1 Animal, 2 Cow : Animal, 3 Wolf : Animal (main); 4 Tiger : Animal (plugin A); 5 Calf : Cow (plugin B).
Methods: 1 meet(virtual Animal, virtual Animal), 2 poke(virtual Animal)."""

COMMON = r'''
#include <yorel/yomm2/keywords.hpp>
struct Animal { virtual ~Animal() {} };
struct Cow : Animal {};
struct Wolf : Animal {};
declare_method(int, meet, (virtual_<Animal&>, virtual_<Animal&>));
declare_method(int, poke, (virtual_<Animal&>));
'''

PLUG_A = r'''
#include "common.hpp"
struct Tiger : Animal {};
register_classes(Tiger, Animal);
define_method(int, meet, (Tiger&, Animal&)) { return 101; }
define_method(int, meet, (Animal&, Tiger&)) { return 102; }
define_method(int, poke, (Tiger&)) { return 201; }
extern "C" Animal* make_object() { return new Tiger; }
'''

PLUG_B = r'''
#include "common.hpp"
struct Calf : Cow {};
register_classes(Calf, Cow);
define_method(int, meet, (Calf&, Animal&)) { return 103; }
define_method(int, meet, (Cow&, Calf&)) { return 104; }
define_method(int, poke, (Calf&)) { return 202; }
extern "C" Animal* make_object() { return new Calf; }
'''

# what each module registers, in static-initialisation order: (kind, payload)
REG = {
    "main": [("class", (1, 1, [1])), ("class", (2, 2, [1, 2])), ("class", (3, 3, [1, 3])),
             ("method", (1, [1, 1])), ("method", (2, [1])),
             ("def", (1, 0, [1, 1])), ("def", (2, 0, [2]))],
    "A": [("class", (14, 4, [4, 1])), ("class", (11, 1, [1])),
          ("def", (1, 1, [4, 1])), ("def", (1, 2, [1, 4])), ("def", (2, 1, [4]))],
    "B": [("class", (25, 5, [5, 2])), ("class", (22, 2, [2])),
          ("def", (1, 3, [5, 1])), ("def", (1, 4, [2, 5])), ("def", (2, 2, [5]))],
}

MAIN = r'''
#include "common.hpp"
#include <dlfcn.h>
#include <cstdio>
#include <cstring>
#include <string>
#include <vector>
namespace verif_hooks { std::size_t hash_budget = 0; Sink* sink = nullptr; }
using namespace yorel::yomm2;
register_classes(Animal, Cow, Wolf);
define_method(int, meet, (Animal&, Animal&)) { return 100; }
define_method(int, poke, (Cow&)) { return 200; }

static void* handle[2] = {nullptr, nullptr};
static Animal* plugged[2] = {nullptr, nullptr};
static std::string path[2];

static void emit_reg(const char* mod, bool on) {
    if (!std::strcmp(mod, "main")) { std::fputs(%(MAIN_ON)s, stdout); return; }
    if (!std::strcmp(mod, "A")) { std::fputs(on ? %(A_ON)s : %(A_OFF)s, stdout); return; }
    std::fputs(on ? %(B_ON)s : %(B_OFF)s, stdout);
}
static int code_to_d(int c) { return c %% 100; }
template<class F> static int outcome(F f) {
    try { return code_to_d(f()); }
    catch (const resolution_error& e) { return e.status == resolution_error::no_definition ? -1 : -2; }
}
static void tables() {
    Animal a; Cow c; Wolf w;
    std::vector<std::pair<int, Animal*>> objs = {{1, &a}, {2, &c}, {3, &w}};
    if (plugged[0]) objs.push_back({4, plugged[0]});
    if (plugged[1]) objs.push_back({5, plugged[1]});
    std::string rows;
    for (auto& x : objs) for (auto& y : objs) {
        int o = outcome([&] { return meet(*x.second, *y.second); });
        rows += (rows.empty() ? "" : ",") + std::string("[[") + std::to_string(x.first) + "," + std::to_string(y.first) + "]," + std::to_string(o) + "]";
    }
    std::printf("{\"e\":\"table\",\"p\":0,\"m\":1,\"shape\":\"VV\",\"rows\":[%%s]}\n", rows.c_str());
    rows.clear();
    for (auto& x : objs) {
        int o = outcome([&] { return poke(*x.second); });
        rows += (rows.empty() ? "" : ",") + std::string("[[") + std::to_string(x.first) + "]," + std::to_string(o) + "]";
    }
    std::printf("{\"e\":\"table\",\"p\":0,\"m\":2,\"shape\":\"V\",\"rows\":[%%s]}\n", rows.c_str());
}
static bool toggle(int k) {
    if (!handle[k]) {
        handle[k] = dlopen(path[k].c_str(), RTLD_NOW);
        if (!handle[k]) { std::printf("{\"e\":\"dlopen_failed\"}\n"); return false; }
        plugged[k] = ((Animal* (*)())dlsym(handle[k], "make_object"))();
        emit_reg(k == 0 ? "A" : "B", true);
    } else {
        delete plugged[k]; plugged[k] = nullptr;
        dlclose(handle[k]); handle[k] = nullptr;
        if (dlopen(path[k].c_str(), RTLD_NOW | RTLD_NOLOAD)) { std::printf("{\"e\":\"not_unloaded\"}\n"); return false; }
        emit_reg(k == 0 ? "A" : "B", false);
    }
    return true;
}
int main(int argc, char** argv) {
    path[0] = argv[1]; path[1] = argv[2];
    default_policy::error = [](const error_type& ev) { if (auto e = std::get_if<resolution_error>(&ev)) throw *e; };
    // argv[3]: histories, one per word: a = toggle plugin A, b = toggle plugin B, u = update (+ tables)
    int n = 0;
    for (int i = 3; i < argc; ++i) {
        std::printf("{\"e\":\"reset\",\"script\":\"%(NAME)s-h%%d-%%s\",\"bindings\":[\"dl\"]}\n", n++, argv[i]);
        emit_reg("main", true);
        for (const char* p = argv[i]; *p; ++p) {
            if (*p == 'u') {
                update();
                std::printf("{\"e\":\"update\",\"p\":0,\"res\":\"ok\",\"c\":0,\"rep\":{}}\n");
                tables();
            } else if (!toggle(*p == 'a' ? 0 : 1)) return 3;
        }
        // back to the baseline for the next history
        for (int k = 0; k < 2; ++k) if (handle[k]) { delete plugged[k]; plugged[k] = nullptr; dlclose(handle[k]); handle[k] = nullptr; }
        std::printf("{\"e\":\"end\"}\n");
    }
    return 0;
}
'''


def _events(items, on):
    out = []
    for kind, p in items:
        if kind == "class":
            r, c, bases = p
            out.append('{"e":"class","p":0,"r":%d,"c":%d,"bases":%s,"abs":false}' % (r, c, str(bases).replace(" ", "")) if on
                       else '{"e":"unclass","p":0,"r":%d}' % r)
        elif kind == "method":
            m, vp = p
            out.append('{"e":"method","p":0,"m":%d,"shape":"%s","vp":%s}' % (m, "V" * len(vp), str(vp).replace(" ", "")))
        else:
            m, d, vp = p
            out.append('{"e":"def","p":0,"m":%d,"d":%d,"vp":%s}' % (m, d, str(vp).replace(" ", "")) if on
                       else '{"e":"undef","p":0,"m":%d,"d":%d}' % (m, d))
    return out


def _cstr(lines):
    return '"' + "".join(l.replace("\\", "\\\\").replace('"', '\\"') + "\\n" for l in lines) + '"'


def sources(name):
    main = MAIN % {
        "NAME": name,
        "MAIN_ON": _cstr(_events(REG["main"], True)),
        "A_ON": _cstr(_events(REG["A"], True)),
        # destruction happens in reverse order of construction
        "A_OFF": _cstr(_events(list(reversed(REG["A"])), False)),
        "B_ON": _cstr(_events(REG["B"], True)),
        "B_OFF": _cstr(_events(list(reversed(REG["B"])), False)),
    }
    return {"common.hpp": COMMON, "main.cpp": main, "plug_a.cpp": PLUG_A, "plug_b.cpp": PLUG_B}
