"""Emitter for C09 / C15: hierarchies of classes WITHOUT virtual functions.  Such classes have no dynamic type of their own:
the only way to dispatch on them is `final` (virtual_ptr<T>::final, final_virtual_ptr, make_virtual_shared), which takes the
static type for the dynamic one.  One class may be left unregistered: under the checked (debug) default policy building a
final virtual_ptr for it must be reported as an unknown class carrying that class."""
import sys
import os
sys.path.insert(0, os.path.join(os.path.dirname(os.path.dirname(os.path.abspath(__file__))), "lib"))
import gen

COMMON = r'''
#include <yorel/yomm2/keywords.hpp>
#include <string>
#include <vector>
#include <memory>
struct Unknown { yorel::yomm2::type_id type; };
struct MTable { yorel::yomm2::type_id type; };
static std::vector<int> g_recv;
template<class F> static int call(F f) {
    g_recv.clear();
    try { return f(); }
    catch (const yorel::yomm2::resolution_error& e) { g_recv.clear(); return e.status == yorel::yomm2::resolution_error::no_definition ? -1 : -2; }
}
static std::string jl(const std::vector<int>& v) { std::string s = "["; for (std::size_t i = 0; i < v.size(); ++i) s += (i ? "," : "") + std::to_string(v[i]); return s + "]"; }
'''


def scenario(idx, classes, parent, missing, methods, defs):
    """classes: numbers; parent: dict class -> base class or None (a tree); missing: a leaf class left unregistered or None;
    methods: [(m, shape, vp)] with shapes over P / N; defs: [(m, d, vp)]"""
    ns = "n%d" % idx
    o = ["namespace %s {" % ns]
    for c in classes:
        b = parent[c]
        o.append("struct K%d%s { int oid%s = 0; int pad%d[%d] = {}; };" % (c, (" : K%d" % b) if b else "", "" if b is None else "_%d" % c, c, 1 + c % 3))
    o.append(" ".join("using VP%d = virtual_ptr<K%d>;" % (c, c) for c in classes))
    reg = [c for c in classes if c != missing]
    o.append("register_classes(%s);" % ", ".join("K%d" % c for c in reg))
    anc = {}
    for c in classes:
        a, x = [], c
        while x is not None:
            a.append(x)
            x = parent[x]
        anc[c] = a
    root_oid = lambda c: "oid"      # the root's member: every class has it through its bases
    for m, shape, vp in methods:
        ps, vi = [], 0
        for ch in shape:
            if ch == "N":
                ps.append("int")
            else:
                ps.append("VP%d" % vp[vi])
                vi += 1
        o.append("declare_method(int, m%d, (%s));" % (m, ", ".join(ps)))
    mshape = {m: shape for m, shape, vp in methods}
    for m, d, vp in defs:
        ps, vi, rec = [], 0, []
        for i, ch in enumerate(mshape[m]):
            if ch == "N":
                ps.append("int n%d" % i)
            else:
                ps.append("VP%d a%d" % (vp[vi], i))
                rec.append("g_recv.push_back(a%d->oid);" % i)
                vi += 1
        o.append("define_method(int, m%d, (%s)) { %s return %d; }" % (m, ", ".join(ps), " ".join(rec), d))
    o.append("void run() {")
    for r, c in enumerate(reg):
        listed = [b for b in reg if b in anc[c]]
        o.append('    std::printf("{\\"e\\":\\"class\\",\\"p\\":0,\\"r\\":%d,\\"c\\":%d,\\"bases\\":%s,\\"abs\\":false}\\n");' % (idx * 1000 + r + 1, c, str(listed).replace(" ", "")))
    for m, shape, vp in methods:
        o.append('    std::printf("{\\"e\\":\\"method\\",\\"p\\":0,\\"m\\":%d,\\"shape\\":\\"%s\\",\\"vp\\":%s}\\n");' % (idx * 100 + m, shape, str(list(vp)).replace(" ", "")))
    for m, d, vp in defs:
        o.append('    std::printf("{\\"e\\":\\"def\\",\\"p\\":0,\\"m\\":%d,\\"d\\":%d,\\"vp\\":%s}\\n");' % (idx * 100 + m, d, str(list(vp)).replace(" ", "")))
    o.append("}")
    o.append("void handles() {")
    o.append("    const std::type_info* tis[] = {%s};" % ", ".join("&typeid(K%d)" % c for c in classes))
    o.append("    const int nums[] = {%s};" % ", ".join(str(c) for c in classes))
    o.append("    auto cls = [&](yorel::yomm2::type_id id) { for (std::size_t i = 0; i < sizeof(nums) / sizeof(int); ++i) if (reinterpret_cast<yorel::yomm2::type_id>(tis[i]) == id) return nums[i]; return -1; };")
    for k, c in enumerate(classes):
        o.append('    std::printf("{\\"e\\":\\"node\\",\\"p\\":0,\\"k\\":%d,\\"c\\":%d,\\"ok\\":true}\\n");' % (k, c))
    h = idx * 100
    for k, c in enumerate(classes):
        for route, expr in (("final", "VP%d::final(o)" % c), ("final", "final_virtual_ptr(o)"), ("mk", None)):
            h += 1
            oid = 100000 + h
            ev = '"{\\"e\\":\\"vptr\\",\\"p\\":0,\\"h\\":%d,\\"k\\":%d,\\"route\\":\\"%s\\",\\"dyn\\":%d,\\"oid\\":%%d,\\"ind\\":false,\\"chk\\":true,\\"res\\":\\"%%s\\",\\"c\\":%%d}\\n"' % (h, k, route, c)
            o.append("    {")
            if route == "mk":
                o.append("        try { auto v = make_virtual_shared<K%d>(); v->oid = %d;" % (c, oid))
                o.append("              std::printf(%s, %d, \"ok\", -1);" % (ev, oid))
                o.append('              std::printf("{\\"e\\":\\"vget\\",\\"p\\":0,\\"h\\":%d,\\"oids\\":[%%d,%%d,%%d]}\\n", v.get()->oid, (*v).oid, v->oid);' % h)
                o.append("        } catch (const Unknown& u) { std::printf(%s, 0, \"unknown\", cls(u.type)); }" % ev)
            else:
                o.append("        K%d o; o.oid = %d;" % (c, oid))
                o.append("        try { auto v = %s;" % expr)
                o.append("              std::printf(%s, %d, \"ok\", -1);" % (ev, oid))
                o.append('              std::printf("{\\"e\\":\\"vget\\",\\"p\\":0,\\"h\\":%d,\\"oids\\":[%%d,%%d,%%d]}\\n", v.get()->oid, (*v).oid, v->oid);' % h)
                for m, shape, vp in methods:
                    if all(v in anc[c] for v in vp):     # the handle converts to every parameter's virtual_ptr type
                        args, hs = [], []
                        for i, ch in enumerate(shape):
                            if ch == "N":
                                args.append(str(50 + i))
                            else:
                                args.append("v")
                                hs.append(h)
                        o.append('              { int r = call([&] { return m%d(%s); }); std::printf("{\\"e\\":\\"vcall\\",\\"p\\":0,\\"m\\":%d,\\"hs\\":%s,\\"o\\":%%d,\\"recv\\":%%s}\\n", r, jl(g_recv).c_str()); }' %
                                 (m, ", ".join(args), idx * 100 + m, str(hs).replace(" ", "")))
                o.append("        } catch (const Unknown& u) { std::printf(%s, 0, \"unknown\", cls(u.type)); }" % ev)
            o.append("    }")
    o.append("}")
    o.append("} // namespace")
    return "\n".join(o)


def program(name, scenarios):
    o = [gen.PRELUDE, gen.PRELUDE_DEATH, COMMON]
    for sc in scenarios:
        o.append(scenario(*sc))
    o.append("int main() {")
    o.append(gen.MAIN_DEATH)
    o.append('    std::printf("{\\"e\\":\\"reset\\",\\"script\\":\\"%s\\",\\"bindings\\":[\\"gen\\"]}\\n");' % name)
    o.append("    yorel::yomm2::set_error_handler([](const yorel::yomm2::error_type& ev) {")
    o.append("        if (auto e = std::get_if<yorel::yomm2::resolution_error>(&ev)) throw *e;")
    o.append("        if (auto e = std::get_if<yorel::yomm2::unknown_class_error>(&ev)) throw Unknown{e->type};")
    o.append("        if (auto e = std::get_if<yorel::yomm2::method_table_error>(&ev)) throw MTable{e->type}; });")
    for sc in scenarios:
        o.append("    n%d::run();" % sc[0])
    o.append("    yorel::yomm2::update();")
    o.append('    std::puts("{\\"e\\":\\"update\\",\\"p\\":0,\\"res\\":\\"ok\\",\\"c\\":0,\\"rep\\":{}}");')
    for sc in scenarios:
        o.append("    n%d::handles();" % sc[0])
    o.append('    std::puts("{\\"e\\":\\"end\\"}");')
    o.append("    return 0;")
    o.append("}")
    return "\n".join(o)
